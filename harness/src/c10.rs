//! C10 — editing a parsed document is indistinguishable from parsing the edited text.
//! Direct oracle: after every step of an edit history the tree of the edited document (kind, range,
//! structure) equals the tree of a fresh parse of its text.  Tie: String::accept_edit (text + InputEdit).
use crate::corpus::{self, N};
use crate::out::Out;
use crate::rng::Rng;
use crate::rulegen::harvest;
use crate::val::Val;
use crate::{vl, Opts};
use ast_grep_core::source::{Content, Edit};
use ast_grep_core::Pattern;
use ast_grep_language::SupportLang;
use serde_json::json;
use std::panic::{catch_unwind, AssertUnwindSafe};

fn dump(n: &N, out: &mut Vec<(u16, usize, usize, usize)>, depth: usize) {
  out.push((n.kind_id(), n.range().start, n.range().end, depth));
  for c in n.children() {
    dump(&c, out, depth + 1);
  }
}

pub fn run(o: &Opts) {
  let mut out = Out::new(&o.out);
  let mut rng = Rng::new(o.seed ^ 0xc10);
  let nsrc = if o.thorough { 5 } else { 2 };
  let histories = if o.thorough { 30 } else { 8 };
  let mut sampled = false;
  for lang in SupportLang::all_langs().iter().copied() {
    let srcs = corpus::clean_sources(lang, &mut rng, nsrc, 700);
    for src in &srcs {
      for _ in 0..histories {
        let mut doc = corpus::parse(lang, src);
        let mut steps = vec![];
        let nsteps = 1 + rng.below(5);
        for step in 0..nsteps {
          let text = doc.source().to_string();
          let nodes: Vec<N> = corpus::all_nodes(doc.root());
          if nodes.is_empty() {
            break;
          }
          // an edit at node boundaries: delete a node, replace it by another node's text / by multi-byte text /
          // by text with newlines, insert at a node start; or a real replacement from a pattern match
          let a = rng.pick(&nodes).clone();
          let b = rng.pick(&nodes).clone();
          let (pos, del, ins): (usize, usize, String) = match rng.below(9) {
            // same length, another token class: an identifier-like leaf overwritten by digits / by another leaf's text of equal length
            7 | 8 => {
              let leaves: Vec<&N> = nodes.iter().filter(|n| n.is_named() && n.children().count() == 0 && !n.range().is_empty() && n.text().is_ascii()).collect();
              if leaves.is_empty() {
                continue;
              }
              let l = (*rng.pick(&leaves)).clone();
              let len = l.range().len();
              let other = leaves.iter().find(|m| m.range().len() == len && m.kind_id() != l.kind_id()).map(|m| m.text().to_string());
              let ins = match other {
                Some(t) if rng.chance(1, 2) => t,
                _ => if l.text().chars().all(|c| c.is_ascii_digit()) { "x".repeat(len) } else { "7".repeat(len) },
              };
              (l.range().start, len, ins)
            }
            0 => (a.range().start, a.range().len(), String::new()),
            1 => (a.range().start, a.range().len(), b.text().to_string()),
            2 => (a.range().start, 0, format!("{} ", b.text())),
            3 => (a.range().start, a.range().len(), format!("{}/*é日*/", a.text())),
            4 => (a.range().end, 0, "\n\n".to_string()),
            5 => (a.range().start, a.range().len(), a.text().replace('\n', "\n\n")),
            _ => {
              // replacement from a real match
              let ing = harvest(lang, &nodes, &mut rng);
              let Some((pt, None)) = ing.patterns.first().cloned() else { continue };
              let Ok(Ok(p)) = catch_unwind(AssertUnwindSafe(|| Pattern::try_new(&pt, lang))) else { continue };
              match doc.root().replace(&p, "REPL") {
                Some(e) => (e.position, e.deleted_length, String::from_utf8_lossy(&e.inserted_text).to_string()),
                None => continue,
              }
            }
          };
          if pos + del > text.len() {
            continue;
          }
          // the property is about histories whose resulting text parses without errors
          let mut new_text = text.clone();
          new_text.replace_range(pos..pos + del, &ins);
          let fresh = corpus::parse(lang, &new_text);
          if corpus::has_error(&fresh.root()) {
            out.count("edit:result-has-syntax-error(skipped)");
            continue;
          }
          // tie: accept_edit on a copy of the text
          {
            let mut copy = text.clone();
            let ie = copy.accept_edit(&Edit::<String> { position: pos, deleted_length: del, inserted_text: ins.as_bytes().to_vec() });
            let pt = |p: tree_sitter::Point| vl![Val::n(p.row() as usize), Val::n(p.column() as usize)];
            out.case(44, &vl![Val::str_bytes(&text), Val::n(pos), Val::n(del), Val::str_bytes(&ins)],
              &vl![Val::Z(0), Val::str_bytes(&copy), vl![Val::n(ie.start_byte() as usize), Val::n(ie.old_end_byte() as usize), Val::n(ie.new_end_byte() as usize)],
                   pt(ie.start_position()), pt(ie.old_end_position()), pt(ie.new_end_position())],
              &format!("accept_edit lang={lang} pos={pos} del={del} ins={ins:?}"));
          }
          // searches before the edit (whatever the document remembers about itself must not survive the edit)
          let kinds_before: std::collections::BTreeSet<String> = nodes.iter().filter(|n| n.is_named()).map(|n| n.kind().to_string()).collect();
          {
            use ast_grep_core::matcher::KindMatcher;
            if let Some(k) = kinds_before.iter().next() {
              if let Ok(km) = KindMatcher::try_new(k, lang) {
                let _ = doc.root().find(&km);
                let _ = doc.root().find_all(&km).count();
              }
            }
          }
          let r = catch_unwind(AssertUnwindSafe(|| doc.edit(Edit::<String> { position: pos, deleted_length: del, inserted_text: ins.as_bytes().to_vec() }).is_ok()));
          steps.push(json!({"pos": pos, "del": del, "ins": ins}));
          out.checked();
          match r {
            Ok(true) => {}
            _ => {
              out.oracle_fail("", &format!("{lang}: AstGrep::edit fails or panics at step {step}: {:?}", steps), json!({"stream": "c10", "lang": lang.to_string(), "source": src, "steps": steps}));
              break;
            }
          }
          if doc.source().to_string() != new_text {
            out.oracle_fail("", &format!("{lang}: after the edit the document text is not the spliced text (step {step})"), json!({"stream": "c10-text", "lang": lang.to_string(), "source": src, "steps": steps}));
            break;
          }
          let (mut t1, mut t2) = (vec![], vec![]);
          dump(&doc.root(), &mut t1, 0);
          dump(&fresh.root(), &mut t2, 0);
          out.count(if del == 0 { "edit:insertion" } else if ins.is_empty() { "edit:deletion" } else { "edit:replacement" });
          out.nontrivial(&(lang.to_string(), src.len(), pos, del, ins.clone(), step));
          if t1 != t2 {
            let first = t1.iter().zip(&t2).position(|(x, y)| x != y).unwrap_or(t1.len().min(t2.len()));
            out.oracle_fail("", &format!("{lang}: after {} edit(s) the document's tree differs from a fresh parse of its text at pre-order node {first} ({} vs {} nodes): edited {:?}, fresh {:?}; steps {:?}", step + 1, t1.len(), t2.len(), t1.get(first), t2.get(first), steps),
              json!({"stream": "c10-tree", "lang": lang.to_string(), "source": src, "steps": steps}));
            break;
          }
          // searching the edited document = searching the fresh parse: kinds that the edit introduced first
          {
            use ast_grep_core::matcher::KindMatcher;
            let fresh_nodes: Vec<N> = corpus::all_nodes(fresh.root());
            let kinds_after: std::collections::BTreeSet<String> = fresh_nodes.iter().filter(|n| n.is_named()).map(|n| n.kind().to_string()).collect();
            let mut probe: Vec<String> = kinds_after.difference(&kinds_before).cloned().collect();
            if !probe.is_empty() {
              out.count("edit:introduces-a-new-kind");
            }
            probe.extend(kinds_after.iter().take(3).cloned());
            for k in probe.iter().take(6) {
              let Ok(km) = KindMatcher::try_new(k, lang) else { continue };
              let a: Vec<(usize, usize)> = doc.root().find_all(&km).map(|m| (m.range().start, m.range().end)).collect();
              let b: Vec<(usize, usize)> = fresh.root().find_all(&km).map(|m| (m.range().start, m.range().end)).collect();
              let fa = doc.root().find(&km).map(|m| (m.range().start, m.range().end));
              let fb = fresh.root().find(&km).map(|m| (m.range().start, m.range().end));
              out.checked();
              if a != b || fa != fb {
                out.oracle_fail("", &format!("{lang}: after {} edit(s) a search for kind `{k}` in the edited document finds {} node(s) (first {:?}), in a fresh parse of the same text {} (first {:?}); steps {:?}", step + 1, a.len(), fa, b.len(), fb, steps),
                  json!({"stream": "c10-search", "lang": lang.to_string(), "source": src, "steps": steps, "kind": k}));
                break;
              }
            }
            // and a pattern cut from the fresh tree
            let ing2 = harvest(lang, &fresh_nodes, &mut rng);
            if let Some((pt, None)) = ing2.patterns.first().cloned() {
              if let Ok(Ok(p)) = catch_unwind(AssertUnwindSafe(|| Pattern::try_new(&pt, lang))) {
                let a: Vec<(usize, usize)> = doc.root().find_all(&p).map(|m| (m.range().start, m.range().end)).collect();
                let b: Vec<(usize, usize)> = fresh.root().find_all(&p).map(|m| (m.range().start, m.range().end)).collect();
                out.checked();
                if a != b {
                  out.oracle_fail("", &format!("{lang}: after {} edit(s) pattern {pt:?} finds {} node(s) in the edited document and {} in a fresh parse of the same text; steps {:?}", step + 1, a.len(), b.len(), steps),
                    json!({"stream": "c10-search", "lang": lang.to_string(), "source": src, "steps": steps, "pattern": pt}));
                }
              }
            }
          }
          if !sampled {
            sampled = true;
            out.sample(json!({"lang": lang.to_string(), "steps": steps, "nodes": t1.len()}));
          }
        }
      }
    }
  }
  wide_documents(o, &mut out, &mut rng);
  indentation_edits(o, &mut out);
  out.finish("edit histories of 1-5 steps on error-free corpus sources of all 23 languages: deletion of a node, replacement by another node's text / by multi-byte text / by text that adds lines, insertions at node \
              boundaries, replacements from real pattern matches; steps whose resulting text does not parse cleanly are skipped (counted); after every step the edited document's text must be the spliced text and its \
              pre-order dump (kind, byte range, depth) must equal that of a fresh parse, and searches (by kind — first the kinds the edit introduced — and by a pattern cut from the new tree, after a search before the edit) must find the same nodes in both; String::accept_edit (new text and the six InputEdit fields) is a tie case for the model; edits that only resize the INSIDE of a run of blanks (indentation of layout-sensitive languages: Python, YAML, Haskell, Scala, Elixir..., incl. constructed nested blocks dedented to an outer level) are a stream of their own. non-trivial = every applied step");
}


/// Edits that touch nothing but blanks: the inside of a run of spaces/tabs is shortened or lengthened (first and last
/// blank of the run stay). In layout-sensitive grammars the width of the indentation decides the block structure, so
/// the tree must be re-derived although no token changed. Lines are dedented/indented to the indentation of OTHER
/// lines of the same text (the levels that are likely to parse), plus random widths.
fn indentation_edits(o: &Opts, out: &mut Out) {
  let mut rng = Rng::new(o.seed ^ 0xc10_1d);
  let constructed: &[(SupportLang, &str)] = &[
    (SupportLang::Python, "if x:\n  if y:\n    a()\n    b()\n"),
    (SupportLang::Python, "def f():\n    for i in r:\n        g(i)\n        h(i)\n    return 1\n"),
    (SupportLang::Python, "class A:\n    def f(self):\n        pass\n        x = 1\n"),
    (SupportLang::Yaml, "a:\n  b:\n    c: 1\n    d: 2\n"),
    (SupportLang::Yaml, "rule:\n  any:\n    - kind: x\n    - kind: y\n"),
    (SupportLang::Haskell, "f x = do\n    a\n    b\n"),
    (SupportLang::Scala, "def f =\n  if x then\n    a()\n    b()\n"),
  ];
  for lang in SupportLang::all_langs().iter().copied() {
    let mut srcs = corpus::clean_sources(lang, &mut rng, if o.thorough { 4 } else { 2 }, 700);
    srcs.extend(constructed.iter().filter(|(l, _)| *l == lang).map(|(_, s)| s.to_string()));
    for src in &srcs {
      // runs of >= 3 blanks, and the set of line indentations
      let b = src.as_bytes();
      let mut runs: Vec<(usize, usize)> = vec![];
      let mut i = 0;
      while i < b.len() {
        if b[i] == b' ' || b[i] == b'\t' {
          let s0 = i;
          while i < b.len() && (b[i] == b' ' || b[i] == b'\t') {
            i += 1;
          }
          if i - s0 >= 3 {
            runs.push((s0, i));
          }
        } else {
          i += 1;
        }
      }
      if runs.is_empty() {
        continue;
      }
      let levels: Vec<usize> = src.lines().map(|l| l.len() - l.trim_start_matches(|c| c == ' ' || c == '\t').len()).filter(|&n| n >= 2).collect();
      let tries = if o.thorough { 40 } else { 12 };
      for k in 0..tries {
        // the constructed sources go through all of their runs and levels; corpus sources are sampled
        let (s0, e0) = if k < runs.len() { runs[runs.len() - 1 - k] } else { *rng.pick(&runs) };
        let len = e0 - s0;
        let target = if !levels.is_empty() && rng.chance(3, 4) { *rng.pick(&levels) } else { 2 + rng.below(8) };
        if target == len || target < 2 {
          continue;
        }
        let (pos, del, ins) = if target < len { (s0 + 1, len - target, String::new()) } else { (s0 + 1, 0, " ".repeat(target - len)) };
        let mut new_text = src.clone();
        new_text.replace_range(pos..pos + del, &ins);
        let fresh = corpus::parse(lang, &new_text);
        if corpus::has_error(&fresh.root()) {
          out.count("indent-edit:result-has-syntax-error(skipped)");
          continue;
        }
        let mut doc = corpus::parse(lang, src);
        let _ = corpus::all_nodes(doc.root()).len();
        let steps = json!([{"pos": pos, "del": del, "ins": ins}]);
        let r = catch_unwind(AssertUnwindSafe(|| doc.edit(Edit::<String> { position: pos, deleted_length: del, inserted_text: ins.as_bytes().to_vec() }).is_ok()));
        out.checked();
        if !matches!(r, Ok(true)) {
          out.oracle_fail("", &format!("{lang}: AstGrep::edit fails or panics on an indentation edit {steps}"), json!({"stream": "c10", "lang": lang.to_string(), "source": src, "steps": steps}));
          continue;
        }
        let (mut t1, mut t2) = (vec![], vec![]);
        dump(&doc.root(), &mut t1, 0);
        dump(&fresh.root(), &mut t2, 0);
        out.count(if del > 0 { "indent-edit:dedent" } else { "indent-edit:indent" });
        let orig = { let mut t0 = vec![]; dump(&corpus::parse(lang, src).root(), &mut t0, 0); t0 };
        let same_shape = |x: &Vec<(u16, usize, usize, usize)>, y: &Vec<(u16, usize, usize, usize)>| x.len() == y.len() && x.iter().zip(y).all(|(p, q)| p.0 == q.0 && p.3 == q.3);
        if !same_shape(&orig, &t2) {
          out.count("indent-edit:changes-the-block-structure");
        }
        out.nontrivial(&(lang.to_string(), src.len(), pos, del, ins.clone(), 99usize));
        if doc.source().to_string() != new_text || t1 != t2 {
          let first = t1.iter().zip(&t2).position(|(x, y)| x != y).unwrap_or(t1.len().min(t2.len()));
          out.oracle_fail("", &format!("{lang}: after an edit inside a run of blanks the document's tree differs from a fresh parse of its text at pre-order node {first} ({} vs {} nodes): edited {:?}, fresh {:?}; steps {steps}", t1.len(), t2.len(), t1.get(first), t2.get(first)),
            json!({"stream": "c10-tree", "lang": lang.to_string(), "source": src, "steps": steps}));
        }
      }
    }
  }
}


/// The library is generic in the document's content: the same histories on a document of UTF-16 units (byte offsets
/// are twice the unit offsets), with replacements from real matches whose length is the same, twice, half of the
/// replaced text, and with multi-byte text.
fn wide_documents(o: &Opts, out: &mut Out, rng: &mut Rng) {
  use crate::widedoc::WideDoc;
  use ast_grep_core::AstGrep;
  fn dump_wide(n: &ast_grep_core::Node<WideDoc>, out: &mut Vec<(u16, usize, usize, usize)>, depth: usize) {
    out.push((n.kind_id(), n.range().start, n.range().end, depth));
    for c in n.children() {
      dump_wide(&c, out, depth + 1);
    }
  }
  let sources = [
    (SupportLang::JavaScript, "log(1)\nlog(2)\nlet a = log(a, 'é日');\n"),
    (SupportLang::TypeScript, "const x: number = foo(1);\nfoo(x, 2);\n// 😀 comment\nbar(foo(3));\n"),
    (SupportLang::Python, "print(a)\nx = foo(a, b)\n# é\nprint(foo(1))\n"),
  ];
  // (pattern, replacement): same length, twice the length with the old text as prefix, shorter, multi-byte
  let edits = [("log", "logger"), ("a", "ab"), ("1", "10"), ("foo", "bar"), ("foo", "foofoo"), ("foo($A)", "f($A)"), ("print", "pr"), ("x", "é"), ("foo", "日本"), ("2", "22")];
  let histories = if o.thorough { 120 } else { 40 };
  for (lang, src) in sources {
    for _ in 0..histories {
      let mut doc = AstGrep::doc(WideDoc::new(src, lang));
      let mut cur = src.to_string();
      let mut steps = vec![];
      for step in 0..(1 + rng.below(4)) {
        let (pat, rep) = *rng.pick(&edits);
        let before = cur.clone();
        let Some(edit) = std::panic::catch_unwind(std::panic::AssertUnwindSafe(|| doc.root().replace(pat, rep))).ok().flatten() else { continue };
        // expected text: the splice, on the UTF-16 units
        let mut units: Vec<u16> = before.encode_utf16().collect();
        units.splice(edit.position / 2..(edit.position + edit.deleted_length) / 2, edit.inserted_text.clone());
        let want_text = String::from_utf16_lossy(&units);
        let fresh = AstGrep::doc(WideDoc::new(&want_text, lang));
        if fresh.root().dfs().any(|n| n.is_error()) {
          continue;
        }
        steps.push(json!({"pattern": pat, "replacement": rep, "at": edit.position}));
        let r = std::panic::catch_unwind(std::panic::AssertUnwindSafe(|| doc.edit(edit).is_ok()));
        out.checked();
        out.count("wide-document:edit");
        out.nontrivial(&(lang.to_string(), steps.len(), pat, rep, step, want_text.clone()));
        if !matches!(r, Ok(true)) {
          out.oracle_fail("", &format!("{lang} (UTF-16 document): AstGrep::edit fails or panics: {steps:?}"), json!({"stream": "c10-wide", "source": src, "steps": steps}));
          break;
        }
        let got_text = doc.root().text().to_string();
        cur = want_text.clone();
        if got_text.trim() != want_text.trim() {
          out.oracle_fail("", &format!("{lang} (UTF-16 document): after replacing {pat:?} by {rep:?} the text is {got_text:?}, the spliced text is {want_text:?}; steps {steps:?}"), json!({"stream": "c10-wide", "source": src, "steps": steps}));
          break;
        }
        let (mut t1, mut t2) = (vec![], vec![]);
        dump_wide(&doc.root(), &mut t1, 0);
        dump_wide(&fresh.root(), &mut t2, 0);
        if t1 != t2 {
          out.oracle_fail("", &format!("{lang} (UTF-16 document): after {} edit(s) the tree differs from a fresh parse of {want_text:?}; steps {steps:?}", step + 1), json!({"stream": "c10-wide", "source": src, "steps": steps}));
          break;
        }
        let a: Vec<(usize, usize)> = doc.root().find_all(rep).map(|m| (m.range().start, m.range().end)).collect();
        let b: Vec<(usize, usize)> = fresh.root().find_all(rep).map(|m| (m.range().start, m.range().end)).collect();
        if a != b {
          out.oracle_fail("", &format!("{lang} (UTF-16 document): a search for {rep:?} after the edit finds {a:?}, in a fresh parse {b:?}; steps {steps:?}"), json!({"stream": "c10-wide", "source": src, "steps": steps}));
          break;
        }
      }
    }
  }
}
