//! C14 — suppression comments silence exactly the findings they name.
//! Sources are assembled from single-line statements with own-line and trailing `ast-grep-ignore`
//! comments; the expected result is computed from the generator's own record of where it put which
//! comment (line-based, independent of the tree), and the scan is also a tie case for the model.
use crate::c01::{check_scan, load_rules, rule_yaml};
use crate::c05::DocCtx;
use crate::corpus;
use crate::dump::dump_tree_at;
use crate::out::Out;
use crate::rng::Rng;
use crate::Opts;
use ast_grep_config::{CombinedScan, RuleConfig, Severity};
use ast_grep_core::matcher::MatcherExt;
use ast_grep_language::SupportLang;
use serde_json::json;

struct Tpl {
  lang: SupportLang,
  head: &'static [&'static str],
  foot: &'static [&'static str],
  cmt: &'static str,
  semi: &'static str,
  indent: &'static str,
  /// block comment delimiters, when the language has a second comment kind
  block: Option<(&'static str, &'static str)>,
}

fn templates() -> Vec<Tpl> {
  use SupportLang::*;
  vec![
    Tpl { lang: JavaScript, head: &[], foot: &[], cmt: "//", semi: ";", indent: "", block: Some(("/*", "*/")) },
    Tpl { lang: TypeScript, head: &["function main() {"], foot: &["}"], cmt: "//", semi: ";", indent: "  ", block: Some(("/*", "*/")) },
    Tpl { lang: Tsx, head: &[], foot: &[], cmt: "//", semi: ";", indent: "", block: Some(("/*", "*/")) },
    Tpl { lang: Python, head: &["def main():"], foot: &[], cmt: "#", semi: "", indent: "    ", block: None },
    Tpl { lang: Rust, head: &["fn main() {"], foot: &["}"], cmt: "//", semi: ";", indent: "    ", block: Some(("/*", "*/")) },
    Tpl { lang: Go, head: &["package main", "func main() {"], foot: &["}"], cmt: "//", semi: "", indent: "\t", block: Some(("/*", "*/")) },
    Tpl { lang: Java, head: &["class A {", "  void main() {"], foot: &["  }", "}"], cmt: "//", semi: ";", indent: "    ", block: Some(("/*", "*/")) },
    Tpl { lang: C, head: &["int main() {"], foot: &["}"], cmt: "//", semi: ";", indent: "  ", block: Some(("/*", "*/")) },
    Tpl { lang: Cpp, head: &["int main() {"], foot: &["}"], cmt: "//", semi: ";", indent: "  ", block: Some(("/*", "*/")) },
    Tpl { lang: CSharp, head: &["class A {", "  void Main() {"], foot: &["  }", "}"], cmt: "//", semi: ";", indent: "    ", block: Some(("/*", "*/")) },
    Tpl { lang: Kotlin, head: &["fun main() {"], foot: &["}"], cmt: "//", semi: "", indent: "    ", block: Some(("/*", "*/")) },
    Tpl { lang: Ruby, head: &[], foot: &[], cmt: "#", semi: "", indent: "", block: None },
    Tpl { lang: Lua, head: &[], foot: &[], cmt: "--", semi: "", indent: "", block: Some(("--[[", "]]")) },
    Tpl { lang: Php, head: &["<?php"], foot: &[], cmt: "//", semi: ";", indent: "", block: Some(("/*", "*/")) },
    Tpl { lang: Swift, head: &["func main() {"], foot: &["}"], cmt: "//", semi: "", indent: "    ", block: Some(("/*", "*/")) },
    Tpl { lang: Scala, head: &["object A {", "  def main(): Unit = {"], foot: &["  }", "}"], cmt: "//", semi: "", indent: "    ", block: Some(("/*", "*/")) },
  ]
}

#[derive(Clone, Debug)]
struct Cmt {
  governs: usize,            // 0-based line it governs
  at: usize,                 // line the comment stands on
  ids: Option<Vec<String>>,  // None = all
  text: String,
}

pub fn run(o: &Opts) {
  let mut out = Out::new(&o.out);
  let mut rng = Rng::new(o.seed ^ 0xc14);
  let per_lang = if o.thorough { 120 } else { 25 };
  let mut sampled = false;
  for t in templates() {
    let lang = t.lang;
    // three rules: two patterns and, when it loads, one that overlaps both
    let yamls = vec![
      rule_yaml("ra", lang, "  pattern: foo($A)\n", None),
      rule_yaml("rb", lang, "  pattern: bar($A)\n", Some("baz($A)")),
      rule_yaml("rc", lang, "  any:\n    - pattern: foo($A)\n    - pattern: bar($A)\n", None),
    ];
    let Some(rules) = load_rules(&yamls) else {
      out.count("lang:rules-rejected");
      continue;
    };
    for _ in 0..per_lang {
      let nrules = 1 + rng.below(3);
      let active: Vec<&RuleConfig<SupportLang>> = rules.iter().take(nrules).collect();
      let mut lines: Vec<String> = t.head.iter().map(|s| s.to_string()).collect();
      let mut cmts: Vec<Cmt> = vec![];
      // a header in the language's OTHER comment kind (licence header style), sometimes itself a suppression
      if let Some((bo, bc)) = t.block {
        match rng.below(4) {
          0 => lines.push(format!("{}{bo} header comment {bc}", t.indent)),
          1 => {
            let at = lines.len();
            let text = format!("{bo} ast-grep-ignore {bc}");
            lines.push(format!("{}{}", t.indent, text));
            cmts.push(Cmt { governs: at + 1, at, ids: None, text });
          }
          _ => {}
        }
      }
      let nstmt = 2 + rng.below(5);
      for _ in 0..nstmt {
        // optional own-line comments (0-2) before the statement
        let nown = match rng.below(6) { 0 | 1 => 1, 2 => 2, _ => 0 };
        let mut owns = vec![];
        for _ in 0..nown {
          owns.push(gen_comment(&mut rng, t.cmt));
        }
        let stmt = match rng.below(5) {
          0 => format!("foo(1){}", t.semi),
          1 => format!("bar(2){}", t.semi),
          2 if !t.semi.is_empty() => format!("foo(1){} bar(2){}", t.semi, t.semi),
          3 => format!("qux(3){}", t.semi),
          _ => format!("bar(foo(4)){}", t.semi),
        };
        let trailing = if rng.chance(1, 3) { Some(gen_comment(&mut rng, t.cmt)) } else { None };
        for (text, ids) in owns {
          // an own-line comment governs the NEXT line, whatever that line is
          let at = lines.len();
          lines.push(format!("{}{}", t.indent, text));
          if let Some(ids) = ids {
            cmts.push(Cmt { governs: at + 1, at, ids, text });
          }
        }
        let at = lines.len();
        match trailing {
          Some((text, ids)) => {
            lines.push(format!("{}{} {}", t.indent, stmt, text));
            if let Some(ids) = ids {
              cmts.push(Cmt { governs: at, at, ids, text });
            }
          }
          None => lines.push(format!("{}{}", t.indent, stmt)),
        }
      }
      lines.extend(t.foot.iter().map(|s| s.to_string()));
      let src = lines.join("\n") + "\n";
      let sg = corpus::parse(lang, &src);
      let root = sg.root();
      if corpus::has_error(&root) {
        out.count("source:parse-error(skipped)");
        continue;
      }
      let nodes = corpus::all_nodes(root.clone());
      // every generated comment must have been recognised as ONE comment node on its line (else the
      // grammar glued things together and the line-based expectation does not apply)
      let comment_nodes: Vec<_> = nodes.iter().filter(|n| n.kind().contains("comment")).collect();
      let n_marked = lines.iter().filter(|l| l.contains(t.cmt) || t.block.map(|b| l.contains(b.0)).unwrap_or(false)).count();
      if comment_nodes.len() != n_marked {
        out.count("source:comment-shape-unexpected(skipped)");
        continue;
      }
      let td = dump_tree_at(&root, 0);
      let dc = DocCtx { lang, src: &src, nodes, td };
      let owned: Vec<RuleConfig<SupportLang>> = load_rules(&yamls[..nrules].to_vec()).unwrap();
      check_scan(&mut out, &dc, &sg, &owned, &format!("c14 lang={lang} source={}", serde_json::to_string(&src).unwrap()));
      // ---- independent, line-based expectation
      let mut scan = CombinedScan::new(active.clone());
      let unused_rule = CombinedScan::unused_config(Severity::Hint, lang);
      scan.set_unused_suppression_rule(&unused_rule);
      let res = scan.scan(&sg, false);
      let mut got: Vec<(String, usize, usize)> = vec![];
      let mut got_unused: Vec<usize> = vec![];
      for (r, nms) in &res.matches {
        for nm in nms {
          if r.id == "unused-suppression" {
            got_unused.push(nm.start_pos().line());
          } else {
            got.push((r.id.clone(), nm.start_pos().line(), nm.range().start));
          }
        }
      }
      got.sort();
      got_unused.sort();
      let mut want = vec![];
      let mut used = vec![false; cmts.len()];
      for r in &active {
        for n in dc.nodes.iter() {
          if r.matcher.match_node(n.clone()).is_none() {
            continue;
          }
          let line = n.start_pos().line();
          let mut silenced = false;
          for (ci, c) in cmts.iter().enumerate() {
            if c.governs == line && c.ids.as_ref().map(|v| v.contains(&r.id)).unwrap_or(true) {
              silenced = true;
              used[ci] = true;
            }
          }
          if !silenced {
            want.push((r.id.clone(), line, n.range().start));
          }
        }
      }
      want.sort();
      // the line a comment stands on: governed line (trailing) or the line before (own-line)
      let mut want_unused: Vec<usize> = cmts.iter().zip(&used).filter(|(_, u)| !**u).map(|(c, _)| c.at).collect();
      want_unused.sort();
      out.checked();
      out.count(&format!("comments:{}", cmts.len().min(4)));
      if cmts.iter().any(|c| cmts.iter().filter(|d| d.governs == c.governs).count() > 1) {
        out.count("layout:two-comments-govern-one-line");
      }
      if want.len() != got.len() || !cmts.is_empty() {
        out.nontrivial(&(lang.to_string(), src.clone()));
      }
      if got != want || got_unused != want_unused {
        out.oracle_fail("", &format!("{lang}: findings {:?} / unused-suppression lines {:?}; the comments as written demand {:?} / {:?}; source={}", got, got_unused, want, want_unused, serde_json::to_string(&src).unwrap()),
          json!({"stream": "c14", "lang": lang.to_string(), "source": src, "rules": yamls[..nrules].to_vec()}));
      }
      // ---- the interactive/update-all view (fixable findings and unused suppressions delivered as `diffs`) reports
      // exactly the same findings, in source order
      {
        let sep = scan.scan(&sg, true);
        let mut all_sep: Vec<(String, usize)> = vec![];
        for (r, nms) in &sep.matches {
          all_sep.extend(nms.iter().map(|nm| (r.id.clone(), nm.range().start)));
        }
        let diff_starts: Vec<usize> = sep.diffs.iter().map(|(_, nm)| nm.range().start).collect();
        all_sep.extend(sep.diffs.iter().map(|(r, nm)| (r.id.clone(), nm.range().start)));
        let mut all_plain: Vec<(String, usize)> = vec![];
        for (r, nms) in &res.matches {
          all_plain.extend(nms.iter().map(|nm| (r.id.clone(), nm.range().start)));
        }
        all_sep.sort();
        all_plain.sort();
        out.checked();
        out.count("separate-fix-view:compared");
        if !sep.diffs.is_empty() {
          out.count("separate-fix-view:has-diffs");
        }
        if all_sep != all_plain || diff_starts.windows(2).any(|w| w[0] > w[1]) {
          let miss: Vec<_> = all_plain.iter().filter(|w| !all_sep.contains(w)).take(5).collect();
          out.oracle_fail("", &format!("{lang}: the scan that separates fixable findings reports {} findings (diff starts {:?}), the plain scan {}; missing {:?}; source={}", all_sep.len(), diff_starts, all_plain.len(), miss, serde_json::to_string(&src).unwrap()),
            json!({"stream": "c14-separate-fix", "lang": lang.to_string(), "source": src, "rules": yamls[..nrules].to_vec()}));
        }
      }
      if !sampled && !cmts.is_empty() {
        sampled = true;
        out.sample(json!({"lang": lang.to_string(), "source": src, "findings": got.len(), "unused": got_unused}));
      }
    }
  }
  cli_projects(o, &mut out, &mut rng);
  out.finish("sources of 16 languages assembled from single-line statements (calls matched by 1-3 rules, two rules overlapping on the same nodes, several findings per line) with 0-2 own-line and optional trailing \
              `ast-grep-ignore` comments (no id list, one id, several ids with irregular blanks, unknown ids, plain comments): CombinedScan findings and unused-suppression reports against a line-based expectation \
              computed from the generator's record of the comments (direct oracle) and against the model's scan on the dumped tree (tie). non-trivial = the source has a suppression comment");
}

/// returns (comment text, Some(ids or None=all) if it is a suppression / None if it is a plain comment)
fn gen_comment(rng: &mut Rng, cmt: &str) -> (String, Option<Option<Vec<String>>>) {
  // id lists of 2-4 ids in random order with uneven spacing around the separators (blanks after the colon but not
  // after a comma, several blanks, blanks before a comma, a trailing comma): the list is a set, whatever its layout
  if rng.chance(1, 3) {
    let pool = ["ra", "rb", "rc", "zz", "aa", "other", "rx"];
    let n = 2 + rng.below(3);
    let mut ids: Vec<String> = vec![];
    while ids.len() < n {
      let c = rng.pick(&pool).to_string();
      if !ids.contains(&c) {
        ids.push(c);
      }
    }
    let mut text = format!("{cmt} ast-grep-ignore:{}", ["", " ", "  ", "\t"][rng.below(4)]);
    for (i, id) in ids.iter().enumerate() {
      if i > 0 {
        text.push_str([",", ", ", " ,", ",  ", " , "][rng.below(5)]);
      }
      text.push_str(id);
    }
    if rng.chance(1, 6) {
      text.push(',');
    }
    return (text, Some(Some(ids)));
  }
  match rng.below(8) {
    0 => (format!("{cmt} just a comment"), None),
    1 => (format!("{cmt} ast-grep-ignore"), Some(None)),
    2 => (format!("{cmt} ast-grep-ignore: ra"), Some(Some(vec!["ra".into()]))),
    3 => (format!("{cmt} ast-grep-ignore: rb"), Some(Some(vec!["rb".into()]))),
    4 => (format!("{cmt} ast-grep-ignore: ra, rb"), Some(Some(vec!["ra".into(), "rb".into()]))),
    5 => (format!("{cmt}ast-grep-ignore:rc ,  ra"), Some(Some(vec!["rc".into(), "ra".into()]))),
    6 => (format!("{cmt} ast-grep-ignore: zz"), Some(Some(vec!["zz".into()]))),
    _ => (format!("{cmt} ast-grep-ignore: rc"), Some(Some(vec!["rc".into()]))),
  }
}


/// The same contract through `sg scan` on a project: rules restricted by `files:` / `ignores:` globs, files on
/// which some, all or NO rule runs, own-line suppression comments (blank or with ids) before statements.
/// Expected, per file and per line, from the property text: a finding is silenced iff a comment governs its line
/// and names its rule or nothing; a comment is reported unused iff it silenced nothing — also in a file on which
/// no rule runs at all.
/// `sg scan -U` on a project whose only rule has a fix: unsilenced findings are rewritten, silenced ones are left
/// alone with their comment, and every suppression comment that silenced nothing is removed - wherever it stands
/// relative to the rewritten findings.
fn cli_update_all(o: &Opts, out: &mut Out, rng: &mut Rng) {
  use crate::cli::{fresh_dir, sg};
  let rounds = if o.thorough { 10 } else { 4 };
  for round in 0..rounds {
    let p = fresh_dir(&o.out, &format!("upd_{round}"));
    std::fs::create_dir_all(p.join("rules")).unwrap();
    std::fs::write(p.join("sgconfig.yml"), "ruleDirs: [rules]\n").unwrap();
    std::fs::write(p.join("rules/no-foo.yml"), "id: no-foo\nlanguage: TypeScript\nseverity: warning\nmessage: no foo\nrule:\n  pattern: foo($$$A)\nfix: oof($$$A)\n").unwrap();
    let mut wants = vec![];
    for f in 0..3 {
      let (mut text, mut want) = (String::new(), String::new());
      let n = 2 + rng.below(5);
      for i in 0..n {
        // comment: None, or Some(silences no-foo?)
        let mut cm = |rng: &mut Rng| -> Option<(&'static str, bool)> {
          match rng.below(6) {
            0 => Some(("// ast-grep-ignore", true)),
            1 => Some(("// ast-grep-ignore: no-foo", true)),
            2 => Some(("// ast-grep-ignore: other-rule", false)),
            _ => None,
          }
        };
        let own = cm(rng);
        let trailing = cm(rng);
        let is_foo = rng.chance(1, 2);
        let silenced = is_foo && (own.map(|c| c.1).unwrap_or(false) || trailing.map(|c| c.1).unwrap_or(false));
        if let Some((c, sil)) = own {
          text.push_str(c);
          text.push('\n');
          if is_foo && sil {
            want.push_str(c);
          }
          want.push('\n');
        }
        let stmt = if is_foo { format!("foo({i});") } else { format!("bar({i});") };
        let stmt_after = if is_foo && !silenced { format!("oof({i});") } else { stmt.clone() };
        text.push_str(&stmt);
        want.push_str(&stmt_after);
        if let Some((c, sil)) = trailing {
          text.push(' ');
          text.push_str(c);
          want.push(' ');
          if is_foo && sil {
            want.push_str(c);
          }
        }
        text.push('\n');
        want.push('\n');
      }
      let name = format!("f{f}.ts");
      std::fs::write(p.join(&name), &text).unwrap();
      wants.push((name, text, want));
    }
    let r = sg(&p, &["scan", "-U"], None, 60);
    out.checked();
    out.count("cli-update-all:runs");
    for (name, before, want) in wants {
      let got = std::fs::read_to_string(p.join(&name)).unwrap_or_default();
      out.nontrivial(&before);
      // how a deleted comment leaves the line (trailing blank, empty line) is not the property's business
      let norm = |t: &str| -> Vec<String> { t.lines().map(|l| l.trim_end().to_string()).filter(|l| !l.is_empty()).collect() };
      if r.timed_out || norm(&got) != norm(&want) {
        out.oracle_fail("", &format!("sg scan -U with one fixing rule: {name} was {before:?}, is now {got:?}; rewriting the unsilenced findings and removing the suppressions that silenced nothing gives {want:?}"),
          json!({"stream": "c14-cli-update", "dir": p.to_string_lossy(), "file": name, "before": before, "stdout": r.stdout.chars().take(400).collect::<String>()}));
        break;
      }
    }
  }
}

fn cli_projects(o: &Opts, out: &mut Out, rng: &mut Rng) {
  use crate::cli::{fresh_dir, json_lines, sg};
  cli_update_all(o, out, rng);
  let rounds = if o.thorough { 12 } else { 4 };
  for round in 0..rounds {
    let p = fresh_dir(&o.out, &format!("proj_{round}"));
    std::fs::create_dir_all(p.join("rules")).unwrap();
    std::fs::write(p.join("sgconfig.yml"), "ruleDirs: [rules]\n").unwrap();
    // rules: (id, function name matched, files globs, ignores globs)
    let rules: Vec<(&str, &str, Option<&str>, Option<&str>)> = vec![
      ("no-foo", "foo", Some("src/**"), None),
      ("no-bar", "bar", None, Some("lib/**")),
      ("no-baz", "baz", Some("src/deep/**"), None),
    ];
    for (id, f, files, ignores) in &rules {
      let mut y = format!("id: {id}\nlanguage: TypeScript\nseverity: warning\nmessage: no {f}\nrule:\n  pattern: {f}($$$A)\n");
      if let Some(g) = files {
        y.push_str(&format!("files: ['{g}']\n"));
      }
      if let Some(g) = ignores {
        y.push_str(&format!("ignores: ['{g}']\n"));
      }
      std::fs::write(p.join(format!("rules/{id}.yml")), y).unwrap();
    }
    let applies = |id: &str, path: &str| -> bool {
      match id {
        "no-foo" => path.starts_with("src/"),
        "no-bar" => !path.starts_with("lib/"),
        _ => path.starts_with("src/deep/"),
      }
    };
    let paths = ["src/a.ts", "src/deep/b.ts", "lib/c.ts", "other/d.ts", "lib/inner/e.ts"];
    let mut want: Vec<(String, usize, String)> = vec![]; // (file, line, rule id)
    for path in paths {
      let mut text = String::new();
      let mut line = 0usize;
      for _ in 0..(3 + rng.below(5)) {
        // optional own-line suppression comment
        let sup: Option<Option<Vec<&str>>> = match rng.below(4) {
          0 => Some(None),
          1 => Some(Some(vec![*rng.pick(&["no-foo", "no-bar", "no-baz"])])),
          2 => Some(Some(vec!["no-foo", "no-bar"])),
          _ => None,
        };
        let sup_line = line;
        if let Some(s) = &sup {
          match s {
            None => text.push_str("// ast-grep-ignore\n"),
            Some(ids) => text.push_str(&format!("// ast-grep-ignore: {}\n", ids.join(", "))),
          }
          line += 1;
        }
        // a statement with 0-2 findings
        let calls: Vec<&str> = match rng.below(5) { 0 => vec!["foo"], 1 => vec!["bar"], 2 => vec!["foo", "bar"], 3 => vec!["baz"], _ => vec![] };
        let stmt = if calls.is_empty() { "qux(0);".to_string() } else { calls.iter().map(|c| format!("{c}(1);")).collect::<Vec<_>>().join(" ") };
        text.push_str(&stmt);
        text.push('\n');
        let mut silenced_any = false;
        for c in &calls {
          let id = format!("no-{c}");
          if !applies(&id, path) {
            continue;
          }
          let silenced = match &sup { Some(None) => true, Some(Some(ids)) => ids.contains(&id.as_str()), None => false };
          if silenced {
            silenced_any = true;
          } else {
            want.push((path.to_string(), line, id));
          }
        }
        if sup.is_some() && !silenced_any {
          want.push((path.to_string(), sup_line, "unused-suppression".into()));
        }
        line += 1;
      }
      let fp = p.join(path);
      std::fs::create_dir_all(fp.parent().unwrap()).unwrap();
      std::fs::write(fp, text).unwrap();
    }
    let r = sg(&p, &["scan", "--json=stream"], None, 60);
    out.checked();
    out.count("cli-project:scans");
    let mut got: Vec<(String, usize, String)> = json_lines(&r.stdout).unwrap_or_default().iter().map(|v| (
      v["file"].as_str().unwrap_or("").trim_start_matches("./").to_string(), v["range"]["start"]["line"].as_u64().unwrap_or(0) as usize, v["ruleId"].as_str().unwrap_or("").to_string())).collect();
    got.sort();
    want.sort();
    out.nontrivial(&format!("{want:?}"));
    if r.timed_out || got != want {
      let miss: Vec<_> = want.iter().filter(|w| !got.contains(w)).take(5).collect();
      let extra: Vec<_> = got.iter().filter(|g| !want.contains(g)).take(5).collect();
      out.oracle_fail("", &format!("sg scan on a project with rules restricted by files/ignores: {} findings reported, {} expected from the comments; missing {:?}; unexpected {:?}", got.len(), want.len(), miss, extra),
        json!({"stream": "c14-cli", "dir": p.to_string_lossy(), "stdout": r.stdout.chars().take(600).collect::<String>()}));
    }
  }
}
