//! C11 — no YAML makes ast-grep crash: bad config is an error, good config never panics.
//! Every generated document is loaded (and, if accepted, run on a source) by the `ast-grep` binary in an
//! isolated child process under a wall-clock limit: a panic (exit 101), an abort / stack overflow (signal),
//! or a hang is the failure.  The debug build is used (integer overflow checks on).
use crate::cli::{fresh_dir, sg};
use crate::out::Out;
use crate::rng::Rng;
use crate::Opts;
use serde_json::json;

const SRC: &str = "foo(abc, 12);\nfoo(1, [2, 3], 'x');\nlet HTTPÉtat = 1;\nlet XMLÀb = 1;\nlet ÉÉt = 1;\nclass A { m() { return foo(this.x); } }\nconsole.log(foo(1), bar(2));\n// ast-grep-ignore\nbar(3);\nlet z = 2\nlet y = 3, c = 1\nreturn q\n";

fn base_rule(id: &str, body: &str) -> String {
  format!("id: {id}\nlanguage: TypeScript\nmessage: m\nrule:\n{body}")
}

/// (class for known findings, yaml)
fn gen(rng: &mut Rng, k: usize) -> (&'static str, String) {
  let nums = ["0", "1", "-1", "2147483647", "-2147483648", "2147483648", "4294967297", "99999999999", "-99999999999", "18446744073709551616", "1e9", "1.5", "0x10", "''", "null", "[]", "{}", "true"];
  let strs = ["''", "'$'", "'$$$'", "'µA'", "'$A'", "'$$$A'", "'a'", "'('", "'[a-'", "'\\\\'", "'\\u0000'", "'日本'", "'$1'", "'${'", "~", "[]", "{}", "12", "'*'", "'(?P<x'"];
  let n = |rng: &mut Rng| rng.pick(&nums).to_string();
  let st = |rng: &mut Rng| rng.pick(&strs).to_string();
  match k % 22 {
    0 => ("", base_rule("r", &format!("  kind: number\n  nthChild: {}\n", n(rng)))),
    1 => ("", base_rule("r", &format!("  kind: number\n  nthChild: {}\n", ["\"99999999999n+1\"", "\"-n-2147483647\"", "\"2147483647n+2147483647\"", "\"n--1\"", "\"++n\"", "\"\"", "\"n n\"", "\"-2147483648n-2147483648\"", "\"1n+\"", "\"０n+１\""][rng.below(10)]))),
    2 => ("", base_rule("r", &format!("  kind: number\n  nthChild:\n    position: {}\n    reverse: {}\n    ofRule:\n      kind: {}\n", n(rng), ["true", "false", "1", "''"][rng.below(4)], ["number", "nope", "''", "1"][rng.below(4)]))),
    3 => ("", format!("{}transform:\n  C:\n    substring:\n      source: {}\n      startChar: {}\n      endChar: {}\nfix: $C\n", base_rule("r", "  pattern: foo($A, $B)\n"), st(rng), n(rng), n(rng))),
    4 => {
      // fix templates with several sigils that start no variable (template literals, shell / PHP output), alone and
      // between variables
      let fixes = ["x$C", "console.log(`${first} ${last}`, $A)", "$a = $b", "$ $ $", "$$ $$ $C $$", "echo \"$1 $2\" $A $ $", "`${a}${b}${c}`", "$C$$C$$$C$$$$C$"];
      ("", format!("{}transform:\n  C:\n    replace:\n      source: $A\n      replace: {}\n      by: {}\nfix: {}\n", base_rule("r", "  pattern: foo($A, $B)\n"), if (k / 22) % fixes.len() == 0 { st(rng) } else { "a".to_string() }, if (k / 22) % fixes.len() == 0 { st(rng) } else { "b".to_string() }, serde_json::to_string(fixes[(k / 22) % fixes.len()]).unwrap()))
    }
    5 => {
      let sep = match rng.below(4) {
        0 | 1 => String::new(),
        2 => "      separatedBy: [caseChange]\n".to_string(),
        _ => format!("      separatedBy: [{}]\n", ["caseChange, dash", "dash", "underscore", "dot", "slash", "space", "nope"][rng.below(7)]),
      };
      ("", format!("{}transform:\n  C:\n    convert:\n      source: {}\n      toCase: {}\n{sep}fix: $C\n", base_rule("r", "  pattern: let $A = 1\n"), ["$A", "$A", "'$A'", "$$$A", "''"][rng.below(5)],
        ["camelCase", "snakeCase", "kebabCase", "pascalCase", "upperCase", "lowerCase", "capitalize", "nope"][(k / 22) % 8]))
    }
    6 => ("", base_rule("r", &format!("  regex: {}\n  kind: identifier\n", st(rng)))),
    7 => ("", base_rule("r", &format!("  kind: number\n  range:\n    start: {{line: {}, column: {}}}\n    end: {{line: {}, column: {}}}\n", n(rng), n(rng), n(rng), n(rng)))),
    8 => ("", format!("{}fix:\n  template: {}\n  expandStart: {{regex: {}, stopBy: {}}}\n  expandEnd: {{kind: {}}}\n", base_rule("r", "  pattern: foo($$$A)\n"), st(rng), st(rng), ["end", "neighbor", "nope", "{kind: number}"][rng.below(4)], ["number", "nope"][rng.below(2)])),
    // reference cycles through every operator
    9 => ("", if k / 22 % 2 == 0 {
        format!("{}utils:\n  A:\n    {}:\n      - matches: B\n  B:\n    not:\n      matches: A\n", base_rule("r", "  matches: A\n  kind: number\n"), ["all", "any"][rng.below(2)])
      } else {
        // the back edge sits in a composite key next to a `matches` key of the same object
        let comp = ["not:\n      matches: B", "all:\n      - matches: B", "any:\n      - matches: B\n      - kind: number"][rng.below(3)];
        format!("{}utils:\n  A:\n    matches: C\n    {comp}\n  B:\n    matches: A\n  C:\n    kind: number\n", base_rule("r", "  matches: A\n  kind: number\n"))
      }),
    10 => ("", format!("{}utils:\n  U:\n    nthChild:\n      position: 1\n      ofRule:\n        matches: U\n", base_rule("r", "  matches: U\n  kind: number\n"))),
    11 => ("relational-util-cycle", format!("{}utils:\n  A:\n    {}:\n      matches: B\n      stopBy: end\n  B:\n    {}:\n      matches: A\n      stopBy: end\n", base_rule("r", "  kind: number\n  matches: A\n"), ["inside", "follows"][k / 22 % 2], ["has", "precedes"][k / 22 % 2])),
    12 => ("", format!("{}transform:\n  A1:\n    substring: {{source: $B1}}\n  B1:\n    substring: {{source: {}}}\n", base_rule("r", "  pattern: foo($A, $B)\n"), ["$A1", "$B1", "$C1", "$A"][rng.below(4)])),
    13 => ("", format!("{}rewriters:\n- id: rw\n  rule: {{kind: number}}\n  fix:\n    template: x\n    expandStart: {{regex: '\\('}}\n    expandEnd: {{regex: '\\)'}}\ntransform:\n  R:\n    rewrite:\n      source: $$$A\n      rewriters: [rw{}]\n      joinBy: {}\nfix: bar($R)\n", base_rule("r", "  pattern: foo($$$A)\n"), ["", ", rw", ", nope"][rng.below(3)], st(rng))),
    // severity off on stdin-like single rule; structural garbage
    14 => ("", format!("id: r\nlanguage: TypeScript\nseverity: {}\nmessage: {}\nrule:\n  pattern: {}\nconstraints:\n  {}: {{regex: {}}}\n", ["off", "error", "nope", "1"][rng.below(4)], st(rng), st(rng), ["A", "$A", "''", "1"][rng.below(4)], st(rng))),
    15 => {
      // mutate a valid rule textually
      let valid = format!("{}constraints:\n  A:\n    regex: '^a'\ntransform:\n  X:\n    substring:\n      source: $A\n      startChar: 1\nfix: bar($X)\n", base_rule("r", "  pattern: foo($A, $B)\n  inside:\n    kind: program\n    stopBy: end\n"));
      let mut lines: Vec<String> = valid.lines().map(|s| s.to_string()).collect();
      let i = rng.below(lines.len());
      match rng.below(5) {
        0 => { lines.remove(i); }
        1 => { let l = lines[i].clone(); lines.insert(i, l); }
        2 => { lines[i] = format!(" {}", lines[i]); }
        3 => { lines[i] = lines[i].split(':').next().unwrap_or("").to_string() + ": " + *rng.pick(&nums[..]); }
        _ => { lines[i] = lines[i].replace("  ", "\t"); }
      }
      ("", lines.join("\n") + "\n")
    }
    16 => {
      // random keys / types
      let keys = ["id", "language", "rule", "pattern", "kind", "all", "any", "not", "matches", "inside", "has", "fix", "utils", "constraints", "transform", "rewriters", "severity", "files", "ignores", "metadata", "labels", "note", "url"];
      let mut s = String::new();
      for _ in 0..(2 + rng.below(8)) {
        s.push_str(&format!("{}: {}\n", rng.pick(&keys), if rng.chance(1, 2) { n(rng) } else { st(rng) }));
      }
      ("", s)
    }
    18 => ("rewriter-self-application", format!("{}rewriters:\n- id: rw\n  rule: {{pattern: $B, kind: {}}}\n  transform:\n    C: {{rewrite: {{source: $B, rewriters: [rw]}}}}\n  fix: $C\ntransform:\n  D: {{rewrite: {{source: {}, rewriters: [rw]}}}}\nfix: $D\n",
      base_rule("r", "  pattern: foo($A, $$$REST)\n"), ["number", "identifier"][k / 22 % 2], ["$A", "$$$REST"][k / 44 % 2])),
    // recursive rewriters that do descend (legitimate) and utilities recursive through one relational direction
    19 => ("", if k / 22 % 2 == 0 {
        format!("{}rewriters:\n- id: rw\n  rule: {{pattern: '[$$$ITEMS]'}}\n  transform:\n    C: {{rewrite: {{source: $$$ITEMS, rewriters: [rw], joinBy: '+'}}}}\n  fix: ($C)\ntransform:\n  D: {{rewrite: {{source: $$$A, rewriters: [rw]}}}}\nfix: $D\n", base_rule("r", "  pattern: foo($$$A)\n"))
      } else {
        format!("{}utils:\n  U:\n    any:\n      - kind: number\n      - has:\n          matches: U\n          stopBy: end\n", base_rule("r", "  kind: call_expression\n  matches: U\n"))
      }),
    // patterns that stress the matcher's list alignment: adjacent ellipses before a node, ellipses only,
    // holes next to ellipses — on a source with one-element lists and statements without terminator
    20 => ("", base_rule("r", &format!("  pattern: {}\n", serde_json::to_string(["let $$$A, $$$B, c = 1", "let $$$A, $$$B", "foo($$$A, $$$B, c)", "[$$$A, $$$B, $C]", "$$$A, $$$B", "class A {{ $$$A $$$B m() {{}} }}",
      "let $A, $$$B, $$$C, d = 1", "foo($$$, $$$, $X)", "{{ $$$A; $$$B; x }}", "return $$$A, $$$B, c"][(k / 22) % 10]).unwrap()))),
    21 => ("", format!("id: r\nlanguage: {}\nrule:\n  pattern: {}\n", ["python", "TypeScript"][k / 22 % 2], serde_json::to_string(["import $$$A, $$$B, os", "let $$$A, $$$B, c"][k / 22 % 2]).unwrap())),
    _ => ("", format!("{}labels:\n  A:\n    style: {}\n    message: {}\nmetadata:\n  x: {}\nfiles: [{}]\nignores: {}\n", base_rule("r", "  pattern: foo($A, $B)\n"), ["primary", "secondary", "nope"][rng.below(3)], st(rng), n(rng), st(rng), st(rng))),
  }
}

pub fn run(o: &Opts) {
  let mut out = Out::new(&o.out);
  let mut rng = Rng::new(o.seed ^ 0xc11);
  let n_docs = if o.thorough { 900 } else { 180 };
  let dir = fresh_dir(&o.out, "work");
  std::fs::write(dir.join("a.ts"), SRC).unwrap();
  std::fs::write(dir.join("a.py"), "import sys\nimport os, re\nx = [1]\nprint(x)\n").unwrap();
  let mut sampled = false;
  for k in 0..n_docs {
    let (class, yaml) = gen(&mut rng, k);
    std::fs::write(dir.join("rule.yml"), &yaml).unwrap();
    // load + scan a file, and the --stdin path for a part of the documents
    let stdin = k % 5 == 4;
    let r = if stdin { sg(&dir, &["scan", "-r", "rule.yml", "--stdin", "--json=stream"], Some(SRC), 15) } else { sg(&dir, &["scan", "-r", "rule.yml", "--json=stream", "a.ts", "a.py"], None, 15) };
    out.checked();
    let crashed = r.timed_out || r.code.is_none() || matches!(r.code, Some(101) | Some(134) | Some(139));
    let accepted = matches!(r.code, Some(0) | Some(1));
    out.count(if crashed { "outcome:crash" } else if accepted { "outcome:accepted-and-scanned" } else { "outcome:rejected-with-message" });
    out.count(&format!("generator:{}", k % 22));
    if accepted {
      out.nontrivial(&yaml);
      if !sampled {
        sampled = true;
        out.sample(json!({"yaml": yaml, "exit": r.code}));
      }
    }
    if crashed {
      out.oracle_fail(class, &format!("`sg scan -r rule.yml{}` on the document below ends with exit {:?} timed_out={} ({}): {}", if stdin { " --stdin" } else { " a.ts" }, r.code, r.timed_out,
        r.stderr.lines().find(|l| l.contains("panicked") || l.contains("overflow")).unwrap_or("").chars().take(200).collect::<String>(), serde_json::to_string(&yaml).unwrap()),
        json!({"stream": "c11", "yaml": yaml, "source": SRC}));
    } else if !accepted && r.stderr.trim().is_empty() && r.stdout.trim().is_empty() {
      out.oracle_fail("", &format!("the document is rejected (exit {:?}) without any message: {}", r.code, serde_json::to_string(&yaml).unwrap()), json!({"stream": "c11-silent", "yaml": yaml}));
    }
  }
  // ---- project config, test files, snapshots
  let proj_cases: Vec<(&str, Vec<(&str, String)>, Vec<&str>)> = vec![
    ("orphan snapshot", vec![("sgconfig.yml", "ruleDirs: [rules]\ntestConfigs:\n  - testDir: tests\n".into()), ("rules/r.yml", base_rule("r", "  pattern: foo($A)\n")), ("tests/r-test.yml", "id: r\nvalid: ['bar(1)']\ninvalid: ['foo(1)']\n".into()), ("tests/__snapshots__/orphan-snapshot.yml", "id: orphan\nsnapshots: {}\n".into())], vec!["test", "-U"]),
    ("test id without rule", vec![("sgconfig.yml", "ruleDirs: [rules]\ntestConfigs:\n  - testDir: tests\n".into()), ("rules/r.yml", base_rule("r", "  pattern: foo($A)\n")), ("tests/x-test.yml", "id: nope\nvalid: []\ninvalid: ['foo(1)']\n".into())], vec!["test", "--skip-snapshot-tests"]),
    ("garbage sgconfig", vec![("sgconfig.yml", "ruleDirs: 12\ntestConfigs: {a: 1}\nlanguageGlobs: [1]\n".into())], vec!["scan"]),
    ("missing rule dir", vec![("sgconfig.yml", "ruleDirs: [nope]\nutilDirs: [nope2]\n".into())], vec!["scan"]),
    ("custom language without library", vec![("sgconfig.yml", "ruleDirs: [rules]\ncustomLanguages:\n  mylang:\n    libraryPath: nope.so\n    extensions: [ml]\n".into()), ("rules/r.yml", base_rule("r", "  pattern: foo($A)\n"))], vec!["scan"]),
    ("util file garbage", vec![("sgconfig.yml", "ruleDirs: [rules]\nutilDirs: [utils]\n".into()), ("rules/r.yml", base_rule("r", "  kind: number\n  matches: g\n")), ("utils/g.yml", "id: g\nlanguage: TypeScript\nrule:\n  matches: g\n".into())], vec!["scan"]),
    ("global cycle through a local utility", vec![("sgconfig.yml", "ruleDirs: [rules]\nutilDirs: [utils]\n".into()), ("rules/r.yml", base_rule("r", "  kind: number\n  matches: g1\n")),
      ("utils/g1.yml", "id: g1\nlanguage: TypeScript\nrule:\n  matches: loc\nutils:\n  loc:\n    matches: g2\n".into()), ("utils/g2.yml", "id: g2\nlanguage: TypeScript\nrule:\n  matches: g1\n".into())], vec!["scan"]),
    ("global cycle through a constraint", vec![("sgconfig.yml", "ruleDirs: [rules]\nutilDirs: [utils]\n".into()), ("rules/r.yml", base_rule("r", "  kind: number\n  matches: g1\n")),
      ("utils/g1.yml", "id: g1\nlanguage: TypeScript\nrule:\n  pattern: $A\nconstraints:\n  A:\n    matches: g2\n".into()), ("utils/g2.yml", "id: g2\nlanguage: TypeScript\nrule:\n  matches: g1\n".into())], vec!["scan"]),
    ("global cycle through nthChild.ofRule", vec![("sgconfig.yml", "ruleDirs: [rules]\nutilDirs: [utils]\n".into()), ("rules/r.yml", base_rule("r", "  kind: number\n  matches: g1\n")),
      ("utils/g1.yml", "id: g1\nlanguage: TypeScript\nrule:\n  nthChild:\n    position: 1\n    ofRule:\n      matches: g2\n".into()), ("utils/g2.yml", "id: g2\nlanguage: TypeScript\nrule:\n  matches: g1\n".into())], vec!["scan"]),
    ("empty files", vec![("sgconfig.yml", "".into()), ("rules/r.yml", "".into())], vec!["scan"]),
    ("test file garbage", vec![("sgconfig.yml", "ruleDirs: [rules]\ntestConfigs:\n  - testDir: tests\n".into()), ("rules/r.yml", base_rule("r", "  pattern: foo($A)\n")), ("tests/r-test.yml", "id: r\nvalid: 12\ninvalid: {a: b}\n".into())], vec!["test"]),
  ];
  for (name, files, args) in proj_cases {
    let p = fresh_dir(&o.out, &format!("proj_{}", name.replace(' ', "_")));
    for (f, c) in &files {
      let fp = p.join(f);
      std::fs::create_dir_all(fp.parent().unwrap()).unwrap();
      std::fs::write(fp, c).unwrap();
    }
    std::fs::write(p.join("a.ts"), SRC).unwrap();
    let r = sg(&p, &args, None, 20);
    out.checked();
    out.count("project-config-cases");
    if r.timed_out || r.code.is_none() || matches!(r.code, Some(101) | Some(134) | Some(139)) {
      out.oracle_fail("", &format!("project case `{name}`: `sg {}` ends with exit {:?} timed_out={} ({})", args.join(" "), r.code, r.timed_out, r.stderr.lines().find(|l| l.contains("panicked")).unwrap_or("").chars().take(200).collect::<String>()),
        json!({"stream": "c11-project", "case": name}));
    }
  }
  // ---- a loaded configuration on hostile SOURCE texts: suppression comments with every kind of continuation,
  //      control characters, CRLF / CR-only, BOM, very long and very deep texts, unterminated constructs
  {
    let d2 = fresh_dir(&o.out, "sources");
    std::fs::write(d2.join("rule.yml"), "id: no-foo\nlanguage: TypeScript\nseverity: warning\nmessage: found $A\nrule:\n  pattern: foo($A)\nfix: bar($A)\n---\nid: no-num\nlanguage: TypeScript\nmessage: n\nrule:\n  kind: number\n  inside: {kind: arguments, stopBy: end}\n").unwrap();
    let tails = ["", ":", ": ", ": no-foo", ":no-foo,no-num", ": no-foo,, ,no-num,", "：no-foo", " — legacy", "é", ": é", ":\t", ": no-foo]", "[no-foo]", ": 日本, no-foo", "\u{feff}", ": \u{0}", "-next-line", ": no-foo no-num", ":::", ": ,"];
    let mut texts: Vec<String> = vec![];
    for t in tails {
      texts.push(format!("// ast-grep-ignore{t}\nfoo(1)\n"));
      texts.push(format!("foo(2) // ast-grep-ignore{t}\n/* ast-grep-ignore{t} */ foo(3)\n"));
    }
    texts.push("\u{feff}foo(1)\r\nfoo(2)\rfoo(3)\n".into());
    texts.push(format!("foo({}1{})\n", "(".repeat(300), ")".repeat(300)));
    texts.push(format!("foo({})\n", "[".repeat(2000)));
    texts.push(format!("let s = '{}'; foo(s)\n", "é".repeat(5000)));
    texts.push("foo(\u{0}, '\u{7f}', `\u{2028}`)\n".into());
    texts.push("foo(1".into());
    texts.push("".into());
    texts.push("\n\n\n".into());
    for _ in 0..(if o.thorough { 200 } else { 40 }) {
      let alphabet = ["foo(", ")", "1", ", ", "// ast-grep-ignore", ": ", "no-foo", "\n", "\r\n", "é", "日", "/*", "*/", "'", "`", "{", "}", ";", " ", "\t", "：", "—"];
      texts.push((0..(1 + rng.below(14))).map(|_| *rng.pick(&alphabet)).collect());
    }
    for (i, text) in texts.iter().enumerate() {
      std::fs::write(d2.join("s.ts"), text).unwrap();
      let r = if i % 4 == 3 { sg(&d2, &["scan", "-r", "rule.yml", "--stdin", "--json=stream"], Some(text), 15) } else if i % 4 == 2 { sg(&d2, &["scan", "-r", "rule.yml", "-U", "s.ts"], None, 15) } else { sg(&d2, &["scan", "-r", "rule.yml", "--json=stream", "s.ts"], None, 15) };
      out.checked();
      out.count("source-texts-on-a-loaded-configuration");
      if r.timed_out || r.code.is_none() || matches!(r.code, Some(101) | Some(134) | Some(139)) {
        out.oracle_fail("", &format!("a loaded configuration on the source text {}: exit {:?} timed_out={} ({})", serde_json::to_string(text).unwrap().chars().take(300).collect::<String>(), r.code, r.timed_out,
          r.stderr.lines().find(|l| l.contains("panicked") || l.contains("overflow")).unwrap_or("").chars().take(200).collect::<String>()), json!({"stream": "c11-source", "source": text.chars().take(2000).collect::<String>()}));
      }
    }
  }
  // ---- configurations that name the parser's special kinds (ERROR is the documented way to report syntax errors; its
  //      kind id lies outside the grammar's own table) alone and inside every operator, on broken and clean sources
  {
    let d3 = fresh_dir(&o.out, "special_kinds");
    let bodies = [
      "  kind: ERROR\n",
      "  any:\n    - kind: ERROR\n    - pattern: foo($A)\n",
      "  pattern: foo($$$A)\n  has:\n    kind: ERROR\n    stopBy: end\n",
      "  kind: ERROR\n  not:\n    has:\n      kind: number\n",
      "  all:\n    - kind: ERROR\n    - regex: '.'\n",
      "  kind: number\n  inside:\n    kind: ERROR\n    stopBy: end\n",
      "  matches: E\nutils:\n  E:\n    kind: ERROR\n",
      "  kind: identifier\n  follows:\n    kind: ERROR\n",
    ];
    let texts = ["foo(1", "let = ;\nfoo(2)\n", "class {\n", "}{", "foo(1)\nbar(2)\n", "", "foo(1, , 2))\n// ast-grep-ignore\nlet let\n", "é(((\n"];
    for (bi, body) in bodies.iter().enumerate() {
      for lang in ["TypeScript", "Python", "Rust"] {
        let second = if bi % 2 == 0 { format!("---\nid: other\nlanguage: {lang}\nmessage: o\nrule:\n  pattern: bar($A)\n") } else { String::new() };
        std::fs::write(d3.join("rule.yml"), format!("id: special\nlanguage: {lang}\nseverity: warning\nmessage: m\nrule:\n{body}{second}")).unwrap();
        let ext = match lang { "TypeScript" => "ts", "Python" => "py", _ => "rs" };
        for (ti, text) in texts.iter().enumerate() {
          if !o.thorough && (bi + ti) % 2 == 1 && lang != "TypeScript" {
            continue;
          }
          let f = format!("s.{ext}");
          std::fs::write(d3.join(&f), text).unwrap();
          let r = if ti % 3 == 2 { sg(&d3, &["scan", "-r", "rule.yml", "--stdin", "--json=stream"], Some(text), 15) } else { sg(&d3, &["scan", "-r", "rule.yml", "--json=stream", &f], None, 15) };
          let _ = std::fs::remove_file(d3.join(&f));
          out.checked();
          out.count("special-kind-configurations");
          if matches!(r.code, Some(0) | Some(1)) {
            out.nontrivial(&(bi, lang, ti));
          }
          if r.timed_out || r.code.is_none() || matches!(r.code, Some(101) | Some(134) | Some(139)) {
            out.oracle_fail("", &format!("a {lang} rule naming the ERROR kind ({}) on the source text {text:?}: exit {:?} timed_out={} ({})", serde_json::to_string(body).unwrap(), r.code, r.timed_out,
              r.stderr.lines().find(|l| l.contains("panicked") || l.contains("overflow")).unwrap_or("").chars().take(200).collect::<String>()), json!({"stream": "c11-special-kind", "rule": body, "lang": lang, "source": text}));
            break;
          }
        }
      }
    }
  }
  // ---- sibling searches to the end (`follows` / `precedes` with stopBy: end) started from the zero-width nodes the
  //      parser invents at the end of a text that stops inside a list: they must terminate
  {
    let d4 = fresh_dir(&o.out, "truncated_lists");
    let cases: [(&str, &str, &str, &[&str]); 3] = [
      ("json", "json", "number", &["[\n  \"a\",\n  \"b\",", "{\"k\": [1, 2,", "[[1, [2,", "{\"a\": {\"b\": "]),
      ("TypeScript", "ts", "identifier", &["foo(a, b,", "let x = [a, b,", "class A { m(a,", "f(g(h("]),
      ("Python", "py", "identifier", &["foo(a, b,", "x = [a, b,", "def f(a,", "print(f(g("]),
    ];
    // JSON arrays of n elements cut after a separator, on one line or one element per line, bare or as the value of a
    // pair without its object: which of them end in zero-width `number` / `]` nodes depends on the recovery
    let mut json_family: Vec<String> = vec![];
    for n in if o.thorough { vec![1usize, 2, 3, 4, 5, 6, 7, 8] } else { vec![3, 5, 6] } {
      for sep in [",", ",\n"] {
        for prefix in ["", "\"e\": "] {
          for elem in ["\"a\"", "1"] {
            json_family.push(format!("{prefix}[{}", format!("{elem}{sep}").repeat(n)));
          }
        }
      }
    }
    let json_refs: Vec<&str> = json_family.iter().map(|x| x.as_str()).collect();
    for (lang, ext, kind, texts) in cases.iter().map(|c| (c.0, c.1, c.2, c.3.to_vec())).chain(std::iter::once(("json", "json", "number", json_refs.clone()))) {
      for rel in ["follows", "precedes"] {
        std::fs::write(d4.join("rule.yml"), format!("id: sib\nlanguage: {lang}\nseverity: warning\nmessage: m\nrule:\n  kind: {kind}\n  {rel}:\n    regex: '^no sibling reads like this$'\n    stopBy: end\n---\nid: sib2\nlanguage: {lang}\nmessage: m\nrule:\n  kind: {kind}\n  {rel}:\n    kind: {kind}\n    regex: '^nor like this$'\n    stopBy: end\n")).unwrap();
        for text in &texts {
          let f = format!("t.{ext}");
          std::fs::write(d4.join(&f), text).unwrap();
          let r = sg(&d4, &["scan", "-r", "rule.yml", "--json=stream", &f], None, 15);
          out.checked();
          out.count("sibling-searches-on-truncated-lists");
          if matches!(r.code, Some(0) | Some(1)) {
            out.nontrivial(&(lang, rel, *text));
          } else if !r.timed_out {
            out.count("sibling-searches-on-truncated-lists:configuration-rejected(inert)");
          }
          if r.timed_out || r.code.is_none() || matches!(r.code, Some(101) | Some(134) | Some(139)) {
            out.oracle_fail("", &format!("a {lang} rule with `{rel}: {{stopBy: end}}` on the truncated text {text:?}: exit {:?} timed_out={} ({})", r.code, r.timed_out,
              r.stderr.lines().find(|l| l.contains("panicked") || l.contains("overflow")).unwrap_or("").chars().take(200).collect::<String>()), json!({"stream": "c11-truncated", "lang": lang, "relation": rel, "source": text}));
          }
        }
      }
    }
  }
  crate::c11case::run_case_tie(&mut out, &mut rng, if o.thorough { 6000 } else { 1500 });
  out.finish("rule documents from 22 generators (extreme / non-numeric nthChild and substring numbers, An+B strings at the i32 limits, empty / multi-byte / sigil-only transform sources, invalid regexes in regex / replace / expansions, \
              convert on multi-byte acronyms, ranges, reference cycles through all/any/not/matches, nthChild.ofRule and relational rules, cyclic and dangling transformations, rewriters with expanding fixes and unknown ids, \
              textual mutations of a valid rule, random keys and types, labels / metadata / globs) each loaded and run on a source (file and --stdin) by the debug-build CLI in a child process under a 15 s limit; \
              plus project-level cases (orphan snapshot, unknown test id, garbage sgconfig / test / util files, missing directories, custom language without library). \
              A loaded two-rule configuration is also run (file, -U, --stdin) on about 90 (250) hostile source texts: suppression comments with every kind of continuation (multi-byte, full-width colon, control characters), BOM / CR-only / CRLF, very deep and very long texts, unterminated constructs, random token soup; and configurations naming the parser's ERROR kind alone and under every operator, in three languages, on broken and clean sources. Failure = panic exit, abort / stack overflow, hang, or a rejection without any message. \
              Plus the tie of the `convert` word splitter (fid 51): random texts over a 33-character alphabet (ASCII, 2/3/4-byte upper- and lower-case letters, uncased letters, title-case, separators) and acronym + wide-letter texts through kebab/snake conversion, words mapped back to byte ranges. non-trivial = the document was accepted and the scan ran");
}
