//! `vh probe <lang> <strictness> <pattern> <source>` — debugging aid: match a pattern on every node.
use ast_grep_core::matcher::MatcherExt;
use ast_grep_core::{MatchStrictness, Matcher, Pattern};
use ast_grep_core::Language;
use ast_grep_language::SupportLang;
use std::panic::{catch_unwind, AssertUnwindSafe};

pub fn run(args: &[String]) {
  let lang: SupportLang = args[0].parse().expect("lang");
  let st: MatchStrictness = args[1].parse().expect("strictness");
  let p = Pattern::try_new(&args[2], lang).expect("pattern").with_strictness(st);
  println!("pattern node: {:?} potential_kinds: {:?}", p.node, p.potential_kinds());
  let sg = lang.ast_grep(&args[3]);
  println!("find_all: {:?}", sg.root().find_all(&p).map(|m| (m.range().start, m.range().end)).collect::<Vec<_>>());
  for n in sg.root().dfs() {
    let m = catch_unwind(AssertUnwindSafe(|| p.match_node(n.clone()).is_some()));
    let l = catch_unwind(AssertUnwindSafe(|| p.get_match_len(n.clone())));
    println!("{:>4}..{:<4} {:<28} match={:?} len={:?}", n.range().start, n.range().end, n.kind(), m.map_err(|_| "PANIC"), l.map_err(|_| "PANIC"));
  }
}
