//! `vh probe <lang> <strictness> <pattern> <source>` — debugging aid: match a pattern on every node.
use ast_grep_core::matcher::MatcherExt;
use ast_grep_core::{MatchStrictness, Matcher, Pattern};
use ast_grep_core::Language;
use ast_grep_language::SupportLang;
use std::panic::{catch_unwind, AssertUnwindSafe};

pub fn run(args: &[String]) {
  let lang: SupportLang = args[0].parse().expect("lang");
  let st: MatchStrictness = args[1].parse().expect("strictness");
  let p = Pattern::try_new(&args[2], lang).expect("pattern").with_strictness(st);
  println!("pattern node: {:?} potential_kinds: {:?}", p.node, p.potential_kinds());
  let sg = lang.ast_grep(&args[3]);
  println!("find_all: {:?}", sg.root().find_all(&p).map(|m| (m.range().start, m.range().end)).collect::<Vec<_>>());
  for n in sg.root().dfs() {
    let m = catch_unwind(AssertUnwindSafe(|| p.match_node(n.clone()).is_some()));
    let l = catch_unwind(AssertUnwindSafe(|| p.get_match_len(n.clone())));
    println!("{:>4}..{:<4} {:<28} match={:?} len={:?}", n.range().start, n.range().end, n.kind(), m.map_err(|_| "PANIC"), l.map_err(|_| "PANIC"));
  }
}

/// `vh nav <lang> <file> <start> <end>` — debugging aid: siblings of the node with that range
pub fn nav(args: &[String]) {
  let lang: SupportLang = args[0].parse().expect("lang");
  let src = std::fs::read_to_string(&args[1]).expect("file");
  let (s, e): (usize, usize) = (args[2].parse().unwrap(), args[3].parse().unwrap());
  let sg = lang.ast_grep(&src);
  for n in sg.root().dfs().filter(|n| n.range().start == s && n.range().end == e) {
    if args.len() > 4 && n.kind() != args[4] { continue; }
    println!("node {}..{} {} id={}", s, e, n.kind(), n.node_id());
    if let Some(p) = n.parent() {
      println!(" parent {}..{} {} children:", p.range().start, p.range().end, p.kind());
      for c in p.children() {
        println!("   {}..{} {} named={} missing={} id={}", c.range().start, c.range().end, c.kind(), c.is_named(), c.get_ts_node().is_missing(), c.node_id());
      }
      let mut cur = p.get_ts_node().walk();
      let r = cur.goto_first_child_for_byte(n.range().start as u32);
      println!(" goto_first_child_for_byte({}) = {:?} -> {}..{} {}", n.range().start, r, cur.node().start_byte(), cur.node().end_byte(), cur.node().kind());
    }
    println!(" prev chain: {:?}", { let mut v = vec![]; let mut c = n.prev(); while let Some(x) = c { v.push((x.range().start, x.range().end, x.kind().to_string(), x.node_id())); c = x.prev(); } v });
    println!(" prev_all:   {:?}", n.prev_all().map(|x| (x.range().start, x.range().end, x.kind().to_string(), x.node_id())).collect::<Vec<_>>());
    println!(" next chain: {:?}", { let mut v = vec![]; let mut c = n.next(); while let Some(x) = c { v.push((x.range().start, x.range().end, x.kind().to_string())); c = x.next(); } v });
    println!(" next_all:   {:?}", n.next_all().map(|x| (x.range().start, x.range().end, x.kind().to_string())).collect::<Vec<_>>());
  }
}

/// `vh navtime <lang> <file>` — debugging aid: time of prev()/prev_all()/next_all() per node
pub fn navtime(args: &[String]) {
  let lang: SupportLang = args[0].parse().expect("lang");
  let src = std::fs::read_to_string(&args[1]).expect("file");
  let sg = lang.ast_grep(&src);
  let nodes: Vec<_> = crate::corpus::all_nodes(sg.root());
  println!("{} nodes", nodes.len());
  for n in nodes.iter() {
    let t = std::time::Instant::now();
    let c = n.prev_all().take(100000).count();
    if c >= 100000 {
      println!("prev_all of {}..{} {} id={} does not end", n.range().start, n.range().end, n.kind(), n.node_id());
      continue;
    }
    let d = t.elapsed();
    if d.as_millis() > 50 {
      println!("prev_all of {}..{} {} ({} siblings) took {:?}; depth {}", n.range().start, n.range().end, n.kind(), c, d, n.ancestors().count());
    }
    {
      let mut k = 0usize;
      let mut c = n.prev();
      let mut seen = vec![n.node_id()];
      while let Some(x) = c {
        k += 1;
        if seen.contains(&x.node_id()) || k > 5000 {
          println!("iterated prev() from {}..{} {} id={} CYCLES: reaches {}..{} {} id={} again after {k} steps", n.range().start, n.range().end, n.kind(), n.node_id(), x.range().start, x.range().end, x.kind(), x.node_id());
          break;
        }
        seen.push(x.node_id());
        c = x.prev();
      }
    }
    let t = std::time::Instant::now();
    let _ = n.prev();
    let d = t.elapsed();
    if d.as_millis() > 50 {
      println!("prev of {}..{} {} took {:?}", n.range().start, n.range().end, n.kind(), d);
      break;
    }
  }
}
