//! C07 — fix templates substitute captured code verbatim and keep relative indentation.
use crate::corpus::{self, N};
use crate::out::Out;
use crate::rng::Rng;
use crate::val::Val;
use crate::{vl, Opts};
use ast_grep_core::meta_var::{MetaVarEnv, MetaVariable};
use ast_grep_core::replacer::{Replacer, TemplateFix};
use ast_grep_core::NodeMatch;
use ast_grep_language::SupportLang;
use serde_json::json;
use std::panic::{catch_unwind, AssertUnwindSafe};

// ---------- independent reference semantics (written from the property text) ----------
pub fn spec_indent_at(doc: &[u8], off: usize) -> usize {
  let w = off.saturating_sub(512);
  let line_start = doc[..off].iter().rposition(|b| *b == b'\n').map(|p| p + 1).unwrap_or(0);
  let in_window = line_start > w || (line_start == 0 && w == 0);
  if !in_window {
    return 0;
  }
  // leading blanks of the current line, as far as they reach towards `off`
  let lead = doc[line_start..off].iter().take_while(|b| **b == b' ').count();
  // if the text between the leading blanks and `off` ends in blanks again the scan restarts; the
  // reference only speaks about lines whose indentation is its leading blanks
  lead
}

fn spec_reindent(s: &[u8], k: usize) -> Vec<u8> {
  let mut out = Vec::with_capacity(s.len());
  for b in s {
    out.push(*b);
    if *b == b'\n' {
      out.extend(std::iter::repeat(b' ').take(k));
    }
  }
  out
}

/// remove exactly `c` blanks from every continuation line; None when the text is out of the
/// property's scope (a blank or under-indented continuation line, or a first byte that is a blank)
fn spec_deindent(s: &[u8], c: usize) -> Option<Vec<u8>> {
  if s.first() == Some(&b' ') {
    return None;
  }
  let mut out = vec![];
  for (i, line) in s.split(|b| *b == b'\n').enumerate() {
    if i == 0 {
      out.extend_from_slice(line);
      continue;
    }
    out.push(b'\n');
    let lead = line.iter().take_while(|b| **b == b' ').count();
    if line.is_empty() || lead < c {
      return None;
    }
    out.extend_from_slice(&line[c..]);
  }
  Some(out)
}

#[derive(Debug, Clone)]
pub enum Tok {
  Lit(Vec<u8>),
  Var { multi: bool, name: String, at: usize },
}

/// sigil run of 1–3 followed by a maximal non-empty [A-Z_0-9]+ name is a variable, all else literal
pub fn spec_tokens(t: &[u8]) -> Vec<Tok> {
  let mut toks = vec![];
  let mut lit = vec![];
  let mut i = 0;
  let isn = |b: u8| b.is_ascii_uppercase() || b == b'_' || b.is_ascii_digit();
  while i < t.len() {
    if t[i] != b'$' {
      lit.push(t[i]);
      i += 1;
      continue;
    }
    let mut k = 1;
    while k < 3 && i + k < t.len() && t[i + k] == b'$' {
      k += 1;
    }
    let mut j = i + k;
    while j < t.len() && isn(t[j]) {
      j += 1;
    }
    if j == i + k {
      lit.push(t[i]);
      i += 1;
      continue;
    }
    toks.push(Tok::Lit(std::mem::take(&mut lit)));
    toks.push(Tok::Var { multi: k == 3, name: String::from_utf8_lossy(&t[i + k..j]).into_owned(), at: i });
    i = j;
  }
  toks.push(Tok::Lit(lit));
  toks
}

pub struct SpecEnv<'a> {
  pub doc: &'a [u8],
  pub single: Vec<(String, (usize, usize))>,
  pub multi: Vec<(String, Vec<(usize, usize)>)>,
  pub trans: Vec<(String, Vec<u8>)>,
}

/// None = outside the scope of the indentation clause
pub fn spec_replacement(env: &SpecEnv, mstart: usize, tpl: &[u8]) -> Option<Vec<u8>> {
  let mut bytes = vec![];
  let trans_names: Vec<&String> = env.trans.iter().map(|x| &x.0).collect();
  for tok in spec_tokens(tpl) {
    match tok {
      Tok::Lit(l) => bytes.extend(l),
      Tok::Var { multi, name, at } => {
        let t = spec_indent_at(tpl, at);
        // a captured variable is substituted whichever sigil spells it (fix 648fad9): `$$$X` looks at the
        // multiple capture, then the single one, then the transformation; `$X` at the single capture, then
        // the multiple one; the name of a transformation under `$`/`$$` is the transformed text
        let multi_range = env.multi.iter().find(|x| x.0 == name).and_then(|x| {
          if x.1.is_empty() { None } else { Some((x.1[0].0, x.1[x.1.len() - 1].1)) }
        });
        let single_range = env.single.iter().find(|x| x.0 == name).map(|x| x.1);
        let is_trans = trans_names.contains(&&name);
        let range = if multi { multi_range.or(single_range) } else if is_trans { None } else { single_range.or(multi_range) };
        if range.is_none() && is_trans {
          let src = &env.trans.iter().find(|x| x.0 == name).unwrap().1;
          bytes.extend(spec_reindent(src, t));
          continue;
        }
        let Some((s, e)) = range else { continue }; // unbound: expands to nothing
        let text = &env.doc[s..e];
        if !text.contains(&b'\n') {
          bytes.extend_from_slice(text); // verbatim
        } else {
          let c = spec_indent_at(env.doc, s);
          let d = spec_deindent(text, c)?;
          bytes.extend(spec_reindent(&d, t));
        }
      }
    }
  }
  let m = spec_indent_at(env.doc, mstart);
  Some(spec_reindent(&bytes, m))
}

// ---------- generators ----------
fn gen_template(rng: &mut Rng) -> String {
  let pieces = [
    "$A", "$A", "$$$B", "$T", "$UNBOUND", "$$$NOPE", "$a", "$", "$$", "$$$", "$1", "$A1", "$AB", "$_X",
    "foo(", ")", ", ", " ", "  ", "\n", "\n  ", "\n    ", "\n      ", "x", "é", "{", "}", "=", ";", "日本",
    "if (ok) {\n  ", "\n}", "$A$A", "$A$$$B", "pre$Apost", "$$A", "$$$$B",
  ];
  let n = 1 + rng.below(7);
  (0..n).map(|_| *rng.pick(&pieces)).collect()
}

fn range_of(n: &N) -> (usize, usize) {
  let r = n.range();
  (r.start, r.end)
}

fn v_ranges(rs: &[(usize, usize)]) -> Val {
  Val::L(rs.iter().map(|(s, e)| vl![Val::n(*s), Val::n(*e)]).collect())
}

fn langs_for(o: &Opts) -> Vec<SupportLang> {
  let all = SupportLang::all_langs();
  if o.thorough {
    return all.to_vec();
  }
  let mut v = vec![SupportLang::JavaScript, SupportLang::Python];
  for k in 0..3 {
    let l = all[((o.seed as usize).wrapping_mul(7) + k * 5) % all.len()];
    if !v.contains(&l) {
      v.push(l);
    }
  }
  v
}

pub fn run(o: &Opts) {
  let mut out = Out::new(&o.out);
  let mut rng = Rng::new(o.seed ^ 0xc07);
  let per_src = if o.thorough { 120 } else { 60 };
  let nsrc = if o.thorough { 10 } else { 6 };
  let mut in_scope = 0u64;
  let mut out_scope = 0u64;
  let mut first_sample = true;
  for lang in langs_for(o) {
    let mut srcs = corpus::sources(lang, &mut rng, nsrc, 2500);
    // a CRLF variant and a deep-indented variant
    if let Some(s0) = srcs.first().cloned() {
      srcs.push(s0.replace('\n', "\r\n"));
      let deep: String = s0.lines().map(|l| format!("        {l}\n")).collect();
      srcs.push(deep);
      // a very long line before a multi-line construct
      srcs.push(format!("{}{}", "x".repeat(600), s0));
      // the edge of the 512-unit look-behind window: a multi-line construct that starts 512 bytes after a blank on
      // its own (long) line - the line's indentation is not known there (0), whatever sits at the window's edge
      {
        let sg0 = corpus::parse(lang, &s0);
        let mut starts: Vec<usize> = vec![];
        for n in corpus::all_nodes(sg0.root()) {
          if n.is_named() && n.text().contains('\n') && n.range().len() < 1200 && !starts.contains(&n.range().start) && starts.len() < 3 {
            starts.push(n.range().start);
          }
        }
        for st in starts {
          let line_start = s0[..st].rfind('\n').map(|p| p + 1).unwrap_or(0);
          for blanks in [1usize, 3] {
            // [line start] y; <blanks> x*(511-blanks) <one blank> [construct]: the construct starts 512 bytes after the first blank
            let v = format!("{}y;{}{} {}", &s0[..line_start], " ".repeat(blanks), "x".repeat(511 - blanks), &s0[st..]);
            srcs.push(v);
            out.count("source:construct-512-bytes-after-a-blank");
          }
        }
      }
    }
    for src in &srcs {
      let sg = corpus::parse(lang, src);
      let root = sg.root();
      let nodes = corpus::all_nodes(root.clone());
      if nodes.len() < 3 {
        continue;
      }
      let multi_line: Vec<&N> = nodes.iter().filter(|n| n.is_named() && n.text().contains('\n') && n.range().len() < 1200).collect();
      let doc = src.as_bytes();
      // ---- self-rewrite: `$A` -> `$A` on real multi-line nodes is a no-op (in scope) ----
      for n in multi_line.iter().take(if o.thorough { 200 } else { 60 }) {
        let mut env = MetaVarEnv::new();
        env.insert("A", (*n).clone());
        let nm = NodeMatch::new((*n).clone(), env);
        let fix = TemplateFix::try_new("$A", &lang).unwrap();
        let got = fix.generate_replacement(&nm);
        let (s, e) = range_of(n);
        let c = spec_indent_at(doc, s);
        out.checked();
        if spec_deindent(&doc[s..e], c).is_some() {
          in_scope += 1;
          out.nontrivial(&("self", lang.to_string(), s, e, src.len()));
          out.count("self-rewrite:in-scope");
          if got != &doc[s..e] {
            out.oracle_fail("", &format!("rewriting a {lang} node to itself changes it: {:?} -> {:?}", n.text(), String::from_utf8_lossy(&got)),
              json!({"stream": "self-rewrite", "lang": lang.to_string(), "source": src, "range": [s, e], "got": String::from_utf8_lossy(&got)}));
          }
        } else {
          out_scope += 1;
          out.count("self-rewrite:out-of-scope(blank/under-indented line)");
        }
      }
      // ---- random templates over random captures ----
      for _ in 0..per_src {
        let m = if !multi_line.is_empty() && rng.chance(1, 2) { (*rng.pick(&multi_line)).clone() } else { rng.pick(&nodes).clone() };
        // capture: a descendant of m when possible
        let desc: Vec<N> = m.dfs().filter(|d| d.range().len() < 800).collect();
        let x = if !desc.is_empty() && rng.chance(4, 5) { rng.pick(&desc).clone() } else { rng.pick(&nodes).clone() };
        // sibling run
        let parents: Vec<&N> = nodes.iter().filter(|p| p.children().len() >= 2).collect();
        let mut run: Vec<N> = vec![];
        if !parents.is_empty() {
          let p = rng.pick(&parents);
          let ch: Vec<N> = p.children().collect();
          let i = rng.below(ch.len());
          let j = i + 1 + rng.below(ch.len() - i);
          run = ch[i..j].to_vec();
          if run.last().map(|n| n.range().end).unwrap_or(0) - run[0].range().start > 1000 {
            run.truncate(1);
          }
        }
        let tbytes: Vec<u8> = match rng.below(4) {
          0 => b"t".to_vec(),
          1 => b"line1\n  line2\n\nline4".to_vec(),
          2 => "é\n日本".as_bytes().to_vec(),
          _ => vec![],
        };
        let with_t = rng.chance(1, 2);
        let tpl = gen_template(&mut rng);
        let mut env = MetaVarEnv::new();
        env.insert("A", x.clone());
        env.insert_multi("B", run.clone());
        if with_t {
          env.insert_transformation(&MetaVariable::Capture("A".into(), true), "T", tbytes.clone());
        }
        // what the environment really stores for T (insert_transformation re-formats the slice
        // relative to the source variable's position); tie that step separately (fid 8)
        let stored: Vec<u8> = env.get_transformed("T").cloned().unwrap_or_default();
        if with_t {
          out.case(8, &vl![Val::bytes(doc), Val::opt(Some(Val::n(x.range().start))), Val::bytes(&tbytes)], &Val::bytes(&stored),
            &format!("insert_transformation lang={lang} source var at {} slice={:?}", x.range().start, String::from_utf8_lossy(&tbytes)));
        }
        let tbytes = stored;
        let nm = NodeMatch::new(m.clone(), env);
        let trans_names: Vec<String> = if with_t { vec!["T".into()] } else { vec![] };
        let fix = TemplateFix::with_transform(&tpl, &lang, &trans_names);
        let got = match catch_unwind(AssertUnwindSafe(|| fix.generate_replacement(&nm))) {
          Ok(g) => g,
          Err(_) => {
            out.oracle_fail("", &format!("generate_replacement panics for template {tpl:?}"), json!({"stream": "template", "template": tpl, "source": src}));
            continue;
          }
        };
        let single = vec![("A".to_string(), range_of(&x))];
        let multi = vec![("B".to_string(), run.iter().map(range_of).collect::<Vec<_>>())];
        let trans: Vec<(String, Vec<u8>)> = if with_t { vec![("T".into(), tbytes.clone())] } else { vec![] };
        let mstart = m.range().start;
        // tie
        let venv = vl![
          Val::L(single.iter().map(|(k, r)| vl![Val::str_bytes(k), vl![Val::n(r.0), Val::n(r.1)]]).collect()),
          Val::L(multi.iter().map(|(k, rs)| vl![Val::str_bytes(k), v_ranges(rs)]).collect()),
          Val::L(trans.iter().map(|(k, b)| vl![Val::str_bytes(k), Val::bytes(b)]).collect())
        ];
        out.case(
          7,
          &vl![Val::bytes(doc), Val::n(mstart), venv, Val::L(trans_names.iter().map(|s| Val::str_bytes(s)).collect()), Val::str_bytes(&tpl)],
          &Val::bytes(&got),
          &format!("template lang={lang} tpl={tpl:?} mstart={mstart} A={:?} B={:?}", range_of(&x), multi[0].1),
        );
        // direct oracle
        out.checked();
        let senv = SpecEnv { doc, single, multi, trans };
        match spec_replacement(&senv, mstart, tpl.as_bytes()) {
          Some(want) => {
            in_scope += 1;
            out.count("template:in-scope");
            if spec_tokens(tpl.as_bytes()).len() > 1 {
              out.nontrivial(&(tpl.clone(), lang.to_string(), mstart, range_of(&x)));
            }
            if first_sample {
              first_sample = false;
              out.sample(json!({"stream": "template", "lang": lang.to_string(), "template": tpl, "match_start": mstart,
                "A": range_of(&x), "replacement": String::from_utf8_lossy(&got)}));
            }
            if want != got {
              out.oracle_fail("", &format!("template {tpl:?} at offset {mstart}: replacement {:?}, reference semantics gives {:?}",
                  String::from_utf8_lossy(&got), String::from_utf8_lossy(&want)),
                json!({"stream": "template", "lang": lang.to_string(), "template": tpl, "source": src, "mstart": mstart,
                  "A": range_of(&x), "B": senv.multi[0].1, "T": String::from_utf8_lossy(&tbytes), "with_t": with_t,
                  "got": String::from_utf8_lossy(&got), "want": String::from_utf8_lossy(&want)}));
            }
          }
          None => {
            out_scope += 1;
            out.count("template:out-of-scope(blank/under-indented line)");
          }
        }
      }
    }
  }
  out.set("in_scope", json!(in_scope));
  out.set("out_of_scope", json!(out_scope));
  out.finish(
    "random templates (literals, sigils, variables adjacent to identifiers, multi-line, unbound, transformed) over random captured nodes / sibling runs of corpus trees \
     (incl. CRLF, 8-column shifted and >512-byte-line variants), compared byte-for-byte with the Coq model (tie) and with an independent reference semantics (oracle, only when no \
     continuation line of a capture is blank or under-indented); plus `$A`->`$A` self-rewrites of every multi-line named node. non-trivial = the template has at least one variable / the node is multi-line and in scope",
  );
}
