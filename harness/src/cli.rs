//! Helpers to drive the `ast-grep` binary built from /repo (path in VH_SG) on temporary projects.
use serde_json::Value;
use std::path::{Path, PathBuf};
use std::process::{Command, Stdio};
use std::time::Duration;

pub fn sg_path() -> PathBuf {
  PathBuf::from(std::env::var("VH_SG").unwrap_or_else(|_| "/verif/.cache/target/debug/ast-grep".into()))
}

pub struct RunOut {
  pub code: Option<i32>,
  pub stdout: String,
  pub stderr: String,
  pub timed_out: bool,
}

/// run the binary in `cwd` with a wall-clock limit (a panic inside a walker thread makes the CLI hang)
pub fn sg(cwd: &Path, args: &[&str], stdin: Option<&str>, secs: u64) -> RunOut {
  let mut cmd = Command::new(sg_path());
  cmd.current_dir(cwd).args(args).stdout(Stdio::piped()).stderr(Stdio::piped()).env("RUST_BACKTRACE", "0").env("NO_COLOR", "1");
  cmd.stdin(if stdin.is_some() { Stdio::piped() } else { Stdio::null() });
  let mut child = cmd.spawn().expect("spawn ast-grep");
  if let Some(s) = stdin {
    use std::io::Write;
    let mut si = child.stdin.take().unwrap();
    let _ = si.write_all(s.as_bytes());
  }
  // read output in threads so a full pipe cannot block the child
  let mut so = child.stdout.take().unwrap();
  let mut se = child.stderr.take().unwrap();
  let t1 = std::thread::spawn(move || { let mut b = Vec::new(); let _ = std::io::Read::read_to_end(&mut so, &mut b); b });
  let t2 = std::thread::spawn(move || { let mut b = Vec::new(); let _ = std::io::Read::read_to_end(&mut se, &mut b); b });
  let start = std::time::Instant::now();
  let mut timed_out = false;
  let code = loop {
    match child.try_wait() {
      Ok(Some(st)) => break st.code(),
      Ok(None) => {
        if start.elapsed() > Duration::from_secs(secs) {
          let _ = child.kill();
          let _ = child.wait();
          timed_out = true;
          break None;
        }
        std::thread::sleep(Duration::from_millis(5));
      }
      Err(_) => break None,
    }
  };
  let stdout = String::from_utf8_lossy(&t1.join().unwrap_or_default()).to_string();
  let stderr = String::from_utf8_lossy(&t2.join().unwrap_or_default()).to_string();
  RunOut { code, stdout, stderr, timed_out }
}

/// records of `--json=stream` output (one JSON object per line)
pub fn json_lines(s: &str) -> Result<Vec<Value>, String> {
  let mut v = vec![];
  for l in s.lines() {
    if l.trim().is_empty() {
      continue;
    }
    v.push(serde_json::from_str::<Value>(l).map_err(|e| format!("{e}: {l}"))?);
  }
  Ok(v)
}

/// (file, rule id, start byte, end byte) of a record
pub fn rec_key(r: &Value) -> (String, String, usize, usize) {
  let f = r["file"].as_str().unwrap_or("").trim_start_matches("./").to_string();
  let id = r["ruleId"].as_str().unwrap_or("").to_string();
  let s = r["range"]["byteOffset"]["start"].as_u64().unwrap_or(0) as usize;
  let e = r["range"]["byteOffset"]["end"].as_u64().unwrap_or(0) as usize;
  (f, id, s, e)
}

pub fn fresh_dir(base: &Path, name: &str) -> PathBuf {
  let d = base.join(name);
  let _ = std::fs::remove_dir_all(&d);
  std::fs::create_dir_all(&d).unwrap();
  d
}
