//! C05 — rule objects mean what the reference says; C04 — bindings coherent / no trace of failed
//! alternatives; C01 (library part) — search is complete.  All three drive random rule objects through
//! the real loader and evaluator, on every node of real trees.
use crate::corpus::{self, N};
use crate::dump::{dump_env, dump_tree_at, TreeDump};
use crate::out::Out;
use crate::rng::Rng;
use crate::rulegen::*;
use crate::val::Val;
use crate::{vl, Opts};
use ast_grep_config::{from_str, DeserializeEnv, RuleCore, SerializableRuleCore};
use ast_grep_core::matcher::MatcherExt;
use ast_grep_language::SupportLang;
use serde_json::json;
use std::panic::{catch_unwind, AssertUnwindSafe};

pub struct Project {
  pub rule: RObj,
  pub utils: Vec<(String, RObj)>,
  pub constraints: Vec<(String, RObj)>,
}

impl Project {
  pub fn yaml(&self) -> String {
    let mut s = format!("rule:\n{}", self.rule.yaml(2));
    if !self.utils.is_empty() {
      s.push_str("utils:\n");
      for (id, r) in &self.utils {
        s.push_str(&format!("  {id}:\n{}", r.yaml(4)));
      }
    }
    if !self.constraints.is_empty() {
      s.push_str("constraints:\n");
      for (id, r) in &self.constraints {
        s.push_str(&format!("  {id}:\n{}", r.yaml(4)));
      }
    }
    s
  }
  pub fn load(&self, lang: SupportLang) -> Result<RuleCore<SupportLang>, String> {
    let y = self.yaml();
    let r = catch_unwind(AssertUnwindSafe(|| {
      let core: SerializableRuleCore = from_str(&y).map_err(|e| format!("yaml: {e}"))?;
      // every LOCAL utility gets a GLOBAL decoy of the same id that accepts every node: a local utility shadows a
      // global one, so `matches: id` must keep standing for the local rule (the model knows only the local ones)
      let mut env = DeserializeEnv::new(lang);
      if !self.utils.is_empty() {
        let decoys: Vec<_> = self.utils.iter()
          .filter_map(|(id, _)| from_str(&format!("id: {id}\nlanguage: {lang}\nrule:\n  regex: '^'\n")).ok()).collect();
        if let Ok(g) = DeserializeEnv::<SupportLang>::parse_global_utils(decoys) {
          env = env.with_globals(&g);
        }
      }
      core.get_matcher(env).map_err(|e| format!("load: {e}"))
    }));
    match r {
      Ok(x) => x,
      Err(_) => Err("panic".into()),
    }
  }
  pub fn objs(&self) -> Vec<&RObj> {
    let mut v = vec![&self.rule];
    v.extend(self.utils.iter().map(|x| &x.1));
    v.extend(self.constraints.iter().map(|x| &x.1));
    v
  }
  pub fn has(&self, f: &dyn Fn(&RKey) -> bool) -> bool {
    self.objs().iter().any(|o| o.has_key(f))
  }
}

/// a project whose rule (and utilities) are built around concrete nodes of the document
pub fn gen_witnessed_project(rng: &mut Rng, lang: SupportLang, nodes: &[N], depth: usize, allow_vars: bool) -> Project {
  gen_witnessed_project_at(rng, lang, nodes, depth, allow_vars).0
}

/// also returns the index (in `nodes`) of the node the rule was built around
pub fn gen_witnessed_project_at(rng: &mut Rng, lang: SupportLang, nodes: &[N], depth: usize, allow_vars: bool) -> (Project, usize) {
  let mut counter = 0usize;
  let ni = rng.below(nodes.len());
  let n = nodes[ni].clone();
  let mut utils: Vec<(String, RObj)> = vec![];
  if rng.chance(1, 3) {
    // a utility witnessed by the same node or a neighbour
    let m = if rng.chance(1, 2) { n.clone() } else { n.parent().unwrap_or_else(|| n.clone()) };
    utils.push(("u0".to_string(), gen_witnessed(rng, lang, &m, depth.saturating_sub(1), &mut counter, allow_vars, &[])));
  }
  let unames: Vec<String> = utils.iter().map(|u| u.0.clone()).collect();
  let rule = gen_witnessed(rng, lang, &n, depth, &mut counter, allow_vars, &unames);
  (Project { rule, utils, constraints: vec![] }, ni)
}

/// A relational rule that has to RETRY: `{pattern: $Q0, kind: K, <rel>: {pattern: P2, stopBy: end}}` where P2 is
/// the text of a LATER candidate of the relation with its first named child replaced by a hole, and an EARLIER
/// candidate of the same kind differs outside that child — it binds the hole and then fails, and nothing of
/// that attempt may be left when the later candidate is tried.
pub fn gen_retry_project(rng: &mut Rng, nodes: &[N]) -> Option<(Project, (usize, usize, u16), (usize, usize, u16), String)> {
  for _ in 0..40 {
    let n = rng.pick(nodes).clone();
    if !n.is_named() {
      continue;
    }
    let rel_kind = rng.below(4);
    let cands: Vec<N> = match rel_kind {
      0 => n.dfs().skip(1).take(400).collect(),
      1 => n.ancestors().collect(),
      2 => n.next_all().collect(),
      _ => n.prev_all().collect(),
    };
    let minus_first = |c: &N| -> Option<(String, String)> {
      let ch = c.children().find(|x| x.is_named())?;
      let t = c.text().to_string();
      let (a, b) = (ch.range().start - c.range().start, ch.range().end - c.range().start);
      if a == 0 && b == t.len() {
        return None; // the hole would be the whole pattern
      }
      Some((format!("{}$R0{}", &t[..a], &t[b..]), format!("{}{}", &t[..a], &t[b..])))
    };
    for j in 1..cands.len() {
      let c2 = &cands[j];
      if !c2.is_named() || c2.range().len() > 120 || c2.text().contains('$') {
        continue;
      }
      let Some((p2, rest2)) = minus_first(c2) else { continue };
      let earlier = cands[..j].iter().find(|c1| c1.kind_id() == c2.kind_id() && minus_first(c1).map(|m| m.1 != rest2).unwrap_or(false));
      if earlier.is_none() {
        continue;
      }
      let rel = Box::new(Rel { rule: RObj::one(RKey::Pattern { text: p2, selector: None, strictness: None }), stop: Stop::End, field: None });
      let relk = match rel_kind {
        0 => RKey::Has(rel),
        1 => RKey::Inside(rel),
        2 => RKey::Precedes(rel),
        _ => RKey::Follows(rel),
      };
      let rule = RObj { keys: vec![RKey::Pattern { text: "$Q0".into(), selector: None, strictness: None }, RKey::Kind(n.kind().to_string()), relk] };
      let p2text = match &rule.keys[2] {
        RKey::Has(r) | RKey::Inside(r) | RKey::Precedes(r) | RKey::Follows(r) => match &r.rule.keys[0] {
          RKey::Pattern { text, .. } => text.clone(),
          _ => String::new(),
        },
        _ => String::new(),
      };
      return Some((Project { rule, utils: vec![], constraints: vec![] }, (n.range().start, n.range().end, n.kind_id()), (c2.range().start, c2.range().end, c2.kind_id()), p2text));
    }
  }
  None
}

/// `has` restricted to a field whose child itself satisfies the stop rule while the wanted node lies below it:
/// `{kind: K(n), has: {field: F, stopBy: {kind: K(c0)}, kind: K(d)}}` for a field child c0 of n and a descendant d
/// of c0 of another kind.  The stop rule is inclusive: the search ends AT c0.  Returns the project and n's index.
pub fn gen_field_stop_project(rng: &mut Rng, nodes: &[N]) -> Option<(Project, usize)> {
  for _ in 0..60 {
    let ni = rng.below(nodes.len());
    let n = nodes[ni].clone();
    if !n.is_named() {
      continue;
    }
    let kids: Vec<N> = n.children().filter(|c| c.is_named() && c.children().next().is_some()).collect();
    if kids.is_empty() {
      continue;
    }
    let c0 = rng.pick(&kids).clone();
    let Some(f) = field_of_child(&n, &c0) else { continue };
    let below: Vec<N> = c0.dfs().skip(1).filter(|d| d.is_named() && d.kind_id() != c0.kind_id()).take(40).collect();
    if below.is_empty() {
      continue;
    }
    let d = rng.pick(&below).clone();
    let stop = match rng.below(3) {
      0 => RObj::one(RKey::Kind(c0.kind().to_string())),
      1 => RObj::one(RKey::Any(vec![RObj::one(RKey::Kind(c0.kind().to_string())), RObj::one(RKey::Regex("^\\s*$".into()))])),
      _ => RObj::one(RKey::Not(Box::new(RObj::one(RKey::Not(Box::new(RObj::one(RKey::Kind(c0.kind().to_string())))))))),
    };
    let rel = Box::new(Rel { rule: RObj::one(RKey::Kind(d.kind().to_string())), stop: Stop::Rule(stop), field: Some(f) });
    let rule = RObj { keys: vec![RKey::Kind(n.kind().to_string()), RKey::Has(rel)] };
    return Some((Project { rule, utils: vec![], constraints: vec![] }, ni));
  }
  None
}

/// `range` of a node that spans several lines and has multi-byte characters on its last line (before its end):
/// line / CHARACTER column of both ends computed here from the bytes.  The rule must match exactly the nodes
/// with that range.  Returns the project and the node's index.
pub fn gen_wide_range_project(rng: &mut Rng, src: &str, nodes: &[N]) -> Option<(Project, usize)> {
  let pos = |off: usize| -> (usize, usize) {
    let pre = &src.as_bytes()[..off];
    let line = pre.iter().filter(|b| **b == b'\n').count();
    let ls = pre.iter().rposition(|b| *b == b'\n').map(|i| i + 1).unwrap_or(0);
    (line, std::str::from_utf8(&pre[ls..]).map(|s| s.chars().count()).unwrap_or(0))
  };
  let cands: Vec<usize> = (0..nodes.len()).filter(|i| {
    let n = &nodes[*i];
    let t = n.text();
    match t.rfind('\n') {
      Some(k) => !t[k..].is_ascii(),
      None => false,
    }
  }).collect();
  if cands.is_empty() {
    return None;
  }
  let ni = *rng.pick(&cands);
  let n = &nodes[ni];
  let (sl, sc) = pos(n.range().start);
  let (el, ec) = pos(n.range().end);
  let rule = RObj { keys: vec![RKey::Range(sl, sc, el, ec)] };
  // a rule needs a kind set to be loadable on its own: the stream loads rule cores, which do not
  Some((Project { rule, utils: vec![], constraints: vec![] }, ni))
}

/// `has` with a rule-valued `stopBy` whose search meets a stop node that is the LAST child of its parent while the
/// wanted node comes later in document order (under a following sibling of an ancestor): the search must go on
/// there.  `{kind: K(n), has: {kind: K(d), stopBy: {kind: K(s)}}}`.  Returns the project and n's index.
pub fn gen_stop_last_child_project(rng: &mut Rng, nodes: &[N]) -> Option<(Project, usize)> {
  for _ in 0..60 {
    let ni = rng.below(nodes.len());
    let n = nodes[ni].clone();
    if !n.is_named() {
      continue;
    }
    let sub: Vec<N> = n.dfs().skip(1).take(300).collect();
    if sub.len() < 4 {
      continue;
    }
    // stop candidates: named, last child of their parent, not the last node of the subtree in pre-order
    let stops: Vec<usize> = (0..sub.len()).filter(|i| sub[*i].is_named() && sub[*i].next().is_none() && sub[*i].parent().map(|p| p.node_id() != n.node_id()).unwrap_or(false)).collect();
    if stops.is_empty() {
      continue;
    }
    let si = *rng.pick(&stops);
    let st = &sub[si];
    let end = st.range().end;
    let later: Vec<&N> = sub[si + 1..].iter().filter(|d| d.is_named() && d.range().start >= end && d.kind_id() != st.kind_id()).collect();
    if later.is_empty() {
      continue;
    }
    let d = (*rng.pick(&later)).clone();
    let rel = Box::new(Rel { rule: RObj::one(RKey::Kind(d.kind().to_string())), stop: Stop::Rule(RObj::one(RKey::Kind(st.kind().to_string()))), field: None });
    let rule = RObj { keys: vec![RKey::Kind(n.kind().to_string()), RKey::Has(rel)] };
    return Some((Project { rule, utils: vec![], constraints: vec![] }, ni));
  }
  None
}

/// A negated sub-rule that mentions a variable bound OUTSIDE the `not`: `{pattern: $X, kind: K, not: {precedes: {pattern: $X,
/// stopBy: end}}}` (or `follows`) built around a leaf node that has later (earlier) named siblings: the node matches
/// exactly when none of them is the same code.  Returns the project, the node's index and the expected verdict.
pub fn gen_not_outer_var_project(rng: &mut Rng, nodes: &[N]) -> Option<(Project, usize, bool)> {
  let forward = rng.chance(1, 2);
  // half of the time a node that does have a twin among the siblings looked at (if the tree has one)
  let twins: Vec<usize> = if rng.chance(1, 2) {
    (0..nodes.len()).filter(|i| {
      let n = &nodes[*i];
      n.is_named() && n.child(0).is_none() && !n.range().is_empty() && {
        let mut sibs: Box<dyn Iterator<Item = N>> = if forward { Box::new(n.next_all()) } else { Box::new(n.prev_all()) };
        sibs.any(|s| s.is_named() && s.text() == n.text())
      }
    }).collect()
  } else { vec![] };
  for _ in 0..80 {
    let ni = if twins.is_empty() { rng.below(nodes.len()) } else { *rng.pick(&twins) };
    let n = nodes[ni].clone();
    if !n.is_named() || n.child(0).is_some() || n.range().is_empty() {
      continue;
    }
    let sibs: Vec<N> = if forward { n.next_all().collect() } else { n.prev_all().collect() };
    if !sibs.iter().any(|s| s.is_named()) {
      continue;
    }
    // the same code: for a named leaf the comparison is by text (whatever the kinds: Python's `"` opens and closes a string)
    let twin = sibs.iter().any(|s| s.is_named() && s.text() == n.text());
    let inner = RObj { keys: vec![RKey::Pattern { text: "$X".into(), selector: None, strictness: None }] };
    let rel = Box::new(Rel { rule: inner, stop: Stop::End, field: None });
    let neg = RObj::one(if forward { RKey::Precedes(rel) } else { RKey::Follows(rel) });
    let rule = RObj { keys: vec![RKey::Pattern { text: "$X".into(), selector: None, strictness: None }, RKey::Kind(n.kind().to_string()), RKey::Not(Box::new(neg))] };
    return Some((Project { rule, utils: vec![], constraints: vec![] }, ni, !twin));
  }
  None
}

/// `inside` with `field` that has to pass over a nearer ancestor: two ancestors of the same kind, the nearer one
/// containing the node through ANOTHER field than the farther one.  The inner rule `{kind: K, pattern: $R0}` has
/// the nearer ancestor's shape and binds $R0 to it; the field test rejects it, and nothing of that attempt may be
/// left when the farther ancestor is tried.  Returns the project and the node's index.
pub fn gen_inside_field_retry_project(rng: &mut Rng, nodes: &[N]) -> Option<(Project, usize, (usize, usize, u16))> {
  for _ in 0..80 {
    let ni = rng.below(nodes.len());
    let n = nodes[ni].clone();
    if !n.is_named() {
      continue;
    }
    // (ancestor, field of the child on the path)
    let mut chain: Vec<(N, Option<String>)> = vec![];
    let mut child = n.clone();
    for a in n.ancestors() {
      chain.push((a.clone(), field_of_child(&a, &child)));
      child = a;
    }
    for j in 1..chain.len() {
      let (a2, f2) = &chain[j];
      let Some(f2) = f2 else { continue };
      if let Some((_a1, _)) = chain[..j].iter().find(|(a1, f1)| a1.kind_id() == a2.kind_id() && f1.as_deref() != Some(f2.as_str())) {
        // no nearer ancestor of that kind reaches the node through f2 itself
        if chain[..j].iter().any(|(a1, f1)| a1.kind_id() == a2.kind_id() && f1.as_deref() == Some(f2.as_str())) {
          continue;
        }
        // the property speaks of field names that label at most one child of the inspected parent (the guard of the
        // c05 stream): a field that labels several children (Bash `argument`, ...) is looked up through its first child
        if chain[..=j].iter().any(|(a, _)| a.kind_id() == a2.kind_id() && a.field_children(f2).count() > 1) {
          continue;
        }
        let inner = RObj { keys: vec![RKey::Pattern { text: "$R0".into(), selector: None, strictness: None }, RKey::Kind(a2.kind().to_string())] };
        let rel = Box::new(Rel { rule: inner, stop: Stop::End, field: Some(f2.clone()) });
        let rule = RObj { keys: vec![RKey::Pattern { text: "$Q0".into(), selector: None, strictness: None }, RKey::Kind(n.kind().to_string()), RKey::Inside(rel)] };
        return Some((Project { rule, utils: vec![], constraints: vec![] }, ni, (a2.range().start, a2.range().end, a2.kind_id())));
      }
    }
  }
  None
}

pub fn gen_project(rng: &mut Rng, ing: &Ingredients, depth: usize, allow_vars: bool, with_constraints: bool) -> Project {
  let mut counter = 0usize;
  let mut utils: Vec<(String, RObj)> = vec![];
  let nutils = rng.below(3);
  for i in 0..nutils {
    let cfg = GenCfg { depth: depth.saturating_sub(1).max(1), utils: utils.iter().map(|u| u.0.clone()).collect(), allow_vars };
    let r = gen_rule(rng, ing, &cfg, 0, &mut counter);
    utils.push((format!("u{i}"), r));
  }
  let cfg = GenCfg { depth, utils: utils.iter().map(|u| u.0.clone()).collect(), allow_vars };
  let rule = gen_rule(rng, ing, &cfg, 0, &mut counter);
  let mut constraints = vec![];
  if with_constraints {
    let mut pats = vec![];
    rule.patterns(&mut pats);
    let vars: Vec<String> = pats.iter().flat_map(|p| vars_of(p)).collect();
    if let Some(v) = vars.first() {
      let ccfg = GenCfg { depth: 1, utils: vec![], allow_vars };
      constraints.push((v.clone(), gen_rule(rng, ing, &ccfg, 0, &mut counter)));
    }
  }
  Project { rule, utils, constraints }
}

pub struct DocCtx<'a> {
  pub lang: SupportLang,
  pub src: &'a str,
  pub nodes: Vec<N<'a>>,
  pub td: TreeDump,
}

pub fn project_wire(p: &Project, dc: &DocCtx) -> Result<(Val, Val, Val), WireErr> {
  let info = DocInfo { lang: dc.lang, nodes: &dc.nodes, ids: &dc.td.ids };
  let rule = p.rule.wire(&info)?;
  let utils = Val::L(p.utils.iter().map(|(id, r)| Ok(vl![Val::str_bytes(id), r.wire(&info)?])).collect::<Result<Vec<_>, WireErr>>()?);
  let cons = Val::L(p.constraints.iter().map(|(id, r)| Ok(vl![Val::str_bytes(id), r.wire(&info)?])).collect::<Result<Vec<_>, WireErr>>()?);
  Ok((rule, utils, cons))
}

/// known-finding class of a rule by its features (none left: the four evaluator defects of the pinned
/// tree were repaired by fix: commits, see known_findings.txt)
fn c05_class(_p: &Project) -> &'static str {
  ""
}

pub fn run_stream(o: &Opts, which: &str) {
  let mut out = Out::new(&o.out);
  let mut rng = Rng::new(o.seed ^ 0xc05 ^ (which.len() as u64 * 7919));
  let per_src = if o.thorough { 120 } else { 45 };
  let nsrc = if o.thorough { 8 } else { 4 };
  let mut loaded = 0u64;
  let mut rejected = 0u64;
  let mut unresolved = 0u64;
  let mut sampled = false;
  for lang in crate::c02::langs_for(o, if which == "c05" { 5 } else { 4 }) {
    // C05 is about trees without zero-width recovery nodes: error-free sources
    let mut srcs = corpus::clean_sources(lang, &mut rng, nsrc, 700);
    if which == "c05" {
    } else if let Some(s0) = srcs.first().cloned() {
      srcs.push(corpus::mutate(&s0, &mut rng));
    }
    for src in &srcs {
      let sg = corpus::parse(lang, src);
      let root = sg.root();
      let nodes = corpus::all_nodes(root.clone());
      if nodes.len() < 4 || nodes.len() > 700 {
        continue;
      }
      let td = dump_tree_at(&root, 0);
      let dc = DocCtx { lang, src, nodes, td };
      let ing = harvest(lang, &dc.nodes, &mut rng);
      // zero-width nodes anywhere? (restriction of C05/C19)
      let zero_width = dc.nodes.iter().any(|n| n.range().is_empty());
      for _ in 0..per_src {
        let shared = which == "c04";
        let wc = shared && rng.chance(1, 3);
        let mut witness_idx: Option<usize> = None;
        let retry = if shared && rng.chance(1, 4) { gen_retry_project(&mut rng, &dc.nodes) } else { None };
        let mut witness: Option<((usize, usize, u16), (usize, usize, u16), String)> = None;
        let field_stop = if retry.is_none() && rng.chance(1, 6) { gen_field_stop_project(&mut rng, &dc.nodes) } else { None };
        let wide_range = if retry.is_none() && field_stop.is_none() && rng.chance(1, 8) { gen_wide_range_project(&mut rng, src, &dc.nodes) } else { None };
        let stop_last = if retry.is_none() && field_stop.is_none() && wide_range.is_none() && rng.chance(1, 6) { gen_stop_last_child_project(&mut rng, &dc.nodes) } else { None };
        let field_retry = if shared && retry.is_none() && field_stop.is_none() && wide_range.is_none() && stop_last.is_none() && rng.chance(1, 5) { gen_inside_field_retry_project(&mut rng, &dc.nodes) } else { None };
        let mut far_ancestor: Option<(usize, usize, u16)> = None;
        let not_outer = if shared && !zero_width && retry.is_none() && field_stop.is_none() && wide_range.is_none() && stop_last.is_none() && field_retry.is_none() && rng.chance(1, 6) { gen_not_outer_var_project(&mut rng, &dc.nodes) } else { None };
        let mut not_outer_want: Option<bool> = None;
        let p = if let Some((p, ni, want)) = not_outer {
          out.count("gen:not-mentions-an-outer-variable");
          witness_idx = Some(ni);
          not_outer_want = Some(want);
          p
        } else if let Some((p, ni, a2)) = field_retry {
          out.count("gen:inside-field-passes-over-a-nearer-ancestor");
          witness_idx = Some(ni);
          far_ancestor = Some(a2);
          p
        } else if let Some((p, ni)) = stop_last {
          out.count("gen:stop-node-is-a-last-child");
          witness_idx = Some(ni);
          p
        } else if let Some((p, ni)) = wide_range {
          out.count("gen:range-of-multi-line-node-with-wide-last-line");
          witness_idx = Some(ni);
          p
        } else if let Some((p, ni)) = field_stop {
          out.count("gen:field-child-is-the-stop");
          witness_idx = Some(ni);
          p
        } else if let Some((p, nr, cr, p2)) = retry {
          out.count("gen:retry-candidates");
          witness = Some((nr, cr, p2));
          p
        } else if rng.chance(1, 2) {
          out.count("gen:witnessed");
          let (p, ni) = gen_witnessed_project_at(&mut rng, lang, &dc.nodes, if o.thorough { 3 } else { 2 }, shared);
          witness_idx = Some(ni);
          p
        } else {
          out.count("gen:random");
          gen_project(&mut rng, &ing, if o.thorough { 4 } else { 3 }, shared, wc)
        };
        // sibling links next to zero-width nodes: the parser library itself disagrees (ts_node_next_sibling skips a
        // zero-width node that children() lists, e.g. Go's empty token at the end of source_file); C05 and C19
        // exclude such trees for the sibling clauses, so a rule using them is not tied on such a tree (counted)
        if zero_width && p.has(&|k| matches!(k, RKey::Precedes(_) | RKey::Follows(_))) {
          out.count("tie:out-of-scope(sibling rule on a tree with zero-width nodes)");
          continue;
        }
        let core = match p.load(lang) {
          Ok(c) => c,
          Err(e) => {
            rejected += 1;
            out.count(if e == "panic" { "load:panic" } else { "load:rejected" });
            continue;
          }
        };
        let Ok((wr, wu, wc)) = project_wire(&p, &dc) else {
          unresolved += 1;
          continue;
        };
        loaded += 1;
        // direct oracle of the retry construction: if the later candidate matches the relation's pattern on a
        // fresh environment, the rule must match the witness node — whatever earlier candidates bound and lost
        if let Some(((ns, ne, nk), (cs, ce, ck), p2)) = &witness {
          use ast_grep_core::{Pattern, matcher::MatcherExt as _};
          let n = dc.nodes.iter().find(|x| x.range().start == *ns && x.range().end == *ne && x.kind_id() == *nk);
          let c2 = dc.nodes.iter().find(|x| x.range().start == *cs && x.range().end == *ce && x.kind_id() == *ck);
          if let (Some(n), Some(c2), Ok(pat)) = (n, c2, Pattern::try_new(p2, lang)) {
            let alone = c2.dfs().take(1).any(|x| pat.match_node(x).is_some());
            out.checked();
            if alone {
              out.count("retry:later-candidate-matches-alone");
              let m = catch_unwind(AssertUnwindSafe(|| core.match_node(n.clone()).is_some())).unwrap_or(false);
              if !m {
                out.oracle_fail("", &format!("{lang}: the relation's pattern {p2:?} matches the candidate {:?} on a fresh environment, yet the rule does not match {:?}: an earlier, rejected candidate influenced the outcome; rule {}",
                  c2.text(), n.text().chars().take(120).collect::<String>(), serde_json::to_string(&p.yaml()).unwrap()), json!({"stream": which, "rule": p.yaml(), "source": src, "lang": lang.to_string()}));
              }
            }
          }
        }
        // direct oracle of the inside-field construction: the node matches and $R0 is the FARTHER ancestor
        if let (Some(wi), Some((as_, ae, ak))) = (witness_idx, far_ancestor) {
          let n = dc.nodes[wi].clone();
          out.checked();
          let got = catch_unwind(AssertUnwindSafe(|| core.match_node(n.clone()).map(|nm| nm.get_env().get_match("R0").map(|r| (r.range().start, r.range().end, r.kind_id()))))).unwrap_or(None);
          if got != Some(Some((as_, ae, ak))) {
            out.oracle_fail("", &format!("{lang}: `inside` with field must pass over a nearer ancestor of the same kind (reached through another field) and bind $R0 to the farther one at {as_}..{ae}; got {got:?} for node {:?}; rule {}", n.text().chars().take(80).collect::<String>(), serde_json::to_string(&p.yaml()).unwrap()),
              json!({"stream": which, "rule": p.yaml(), "source": src, "lang": lang.to_string()}));
          }
        }
        // direct oracle of the negation construction: the variable inside `not` is the one bound outside it
        if let (Some(wi), Some(want)) = (witness_idx, not_outer_want) {
          let n = dc.nodes[wi].clone();
          out.checked();
          out.count(if want { "not-outer-variable:no-twin(matches)" } else { "not-outer-variable:twin(rejected)" });
          let got = catch_unwind(AssertUnwindSafe(|| core.match_node(n.clone()).is_some())).unwrap_or(!want);
          if got != want {
            out.oracle_fail("", &format!("{lang}: the node {:?} has {} sibling that is the same code, so `not: {{precedes/follows: {{pattern: $X}}}}` with $X bound to the node itself must {}; it does not; rule {}",
              n.text().chars().take(60).collect::<String>(), if want { "no" } else { "a" }, if want { "hold and the node match" } else { "fail and the node be rejected" }, serde_json::to_string(&p.yaml()).unwrap()),
              json!({"stream": which, "rule": p.yaml(), "source": src, "lang": lang.to_string()}));
          }
        }
        // node sample: all nodes when small, else a seeded sample always including the root
        let mut pick: Vec<usize> = if dc.nodes.len() <= 80 { (0..dc.nodes.len()).collect() } else {
          let mut v = vec![0];
          // the node the rule was built around, its parent and its first child are always among the nodes tried
          if let Some(wi) = witness_idx {
            v.push(wi);
            let w = &dc.nodes[wi];
            for other in [w.parent(), w.child(0)].into_iter().flatten() {
              if let Some(i) = dc.nodes.iter().position(|x| x.node_id() == other.node_id()) {
                v.push(i);
              }
            }
          }
          for _ in 0..76 { v.push(rng.below(dc.nodes.len())); }
          v.sort(); v.dedup(); v
        };
        pick.truncate(80);
        let mut expected = vec![];
        let mut flags = vec![];
        let mut any_match = false;
        let mut panicked = false;
        for i in &pick {
          let n = dc.nodes[*i].clone();
          match catch_unwind(AssertUnwindSafe(|| core.match_node(n))) {
            Err(_) => { panicked = true; expected.push(Val::err("panic")); flags.push(Val::err("panic")); }
            Ok(None) => { expected.push(vl![Val::Z(1)]); flags.push(Val::Z(0)); }
            Ok(Some(nm)) => {
              any_match = true;
              let found = dc.td.ids.get(&nm.get_node().node_id()).copied().unwrap_or(usize::MAX);
              expected.push(vl![Val::Z(0), Val::n(found), dump_env(nm.get_env(), &dc.td)]);
              flags.push(Val::Z(1));
            }
          }
        }
        let ids = Val::L(pick.iter().map(|i| Val::n(dc.td.ids[&dc.nodes[*i].node_id()])).collect());
        let input = vl![Val::str_bytes(src), dc.td.val.clone(), wr, wu, wc, ids];
        let yaml = p.yaml();
        let what = format!("{which} lang={lang} rule={} source={}", serde_json::to_string(&yaml).unwrap(), serde_json::to_string(src).unwrap());
        out.case(20, &input, &Val::L(expected), &what);
        out.count(if any_match { "rule:matches-some-node" } else { "rule:matches-nothing" });
        if any_match {
          out.nontrivial(&(yaml.clone(), src.len(), lang.to_string()));
        }
        if panicked {
          out.oracle_fail("", &format!("{lang}: rule evaluation panics: {yaml}"), json!({"stream": which, "rule": yaml, "source": src}));
        }
        if !sampled && any_match {
          sampled = true;
          out.sample(json!({"lang": lang.to_string(), "rule": yaml, "nodes_tried": pick.len()}));
        }
        // reference-semantics oracle (C05): variable-disjoint rules, no constraints, no zero-width nodes
        // the property speaks of `field` names that label at most one child of the inspected parent
        let fields_unique = {
          let mut fs = vec![];
          p.objs().iter().for_each(|o| o.fields(&mut fs));
          let ts = ast_grep_core::Language::get_ts_language(&lang);
          fs.iter().all(|f| ts.field_id_for_name(f).map(|id| field_unique(&dc.nodes, id)).unwrap_or(true))
        };
        if which == "c05" && !fields_unique {
          out.count("oracle:out-of-scope(field labels several children)");
        }
        if which == "c05" && p.constraints.is_empty() && var_disjoint(&p.objs()) && !zero_width && fields_unique {
          out.checked();
          out.count("oracle:in-scope");
          let class = c05_class(&p);
          out.case(100, &input, &Val::L(flags), &format!("class={class};{what}"));
        } else if which == "c05" {
          out.count("oracle:out-of-scope(shared vars/zero-width)");
        }
      }
    }
  }
  out.set("rules_loaded", json!(loaded));
  out.set("rules_rejected_by_loader", json!(rejected));
  out.set("rules_unresolved_in_wire", json!(unresolved));
  out.finish(
    "random rule objects over all 13 operators (depth <=3 quick, <=4 thorough; stopBy neighbor/end/rule; field; nthChild number/An+B/object with reverse/ofRule; range; regex; contextual patterns with strictness; \
     0-2 acyclic utility rules; c04: shared variable names and constraints) built from ingredients of the concrete tree, loaded by the real loader and evaluated with RuleCore::match_node on every node (<=80 per rule) \
     of error-free corpus trees; outcome, returned node and full environment are tie cases (fid 20); for variable-disjoint rules the outcome is also compared with the environment-free reference semantics (fid 100). \
     non-trivial = the rule matched at least one node",
  );
}
