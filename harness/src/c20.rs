//! C20 — meta-variable syntax is uniform; small notations (An+B, substring, template scanner) are exact.
use crate::out::Out;
use crate::rng::Rng;
use crate::val::Val;
use crate::{vl, Opts};
use ast_grep_config::{from_yaml_string, GlobalRules};
use ast_grep_core::meta_var::MetaVariable;
use ast_grep_core::replacer::TemplateFix;
use ast_grep_core::Language;
use ast_grep_language::SupportLang;
use serde_json::json;
use std::panic::{catch_unwind, AssertUnwindSafe};

pub fn v_metavar(m: &Option<MetaVariable>) -> Val {
  match m {
    None => vl![],
    Some(MetaVariable::Capture(n, b)) => vl![Val::Z(0), Val::chars(n), Val::b(*b)],
    Some(MetaVariable::Dropped(b)) => vl![Val::Z(1), Val::b(*b)],
    Some(MetaVariable::Multiple) => vl![Val::Z(2)],
    Some(MetaVariable::MultiCapture(n)) => vl![Val::Z(3), Val::chars(n)],
  }
}

/// the declarative classification of the property text, written independently of the code:
/// `$X`/`$$X` capture, `$_…`/`$$_…` non-capturing, `$$$` / `$$$_…` anonymous ellipsis, `$$$X` named
/// ellipsis, with X in [A-Z_][A-Z_0-9]*; everything else is not a hole.
pub fn spec_classify(s: &str) -> Option<MetaVariable> {
  let b: Vec<char> = s.chars().collect();
  let sig = b.iter().take_while(|c| **c == '$').count();
  if sig == 0 || sig > 3 {
    return None;
  }
  let name: String = b[sig..].iter().collect();
  let valid_name = {
    let mut cs = name.chars();
    match cs.next() {
      Some(c) if c.is_ascii_uppercase() || c == '_' => {
        cs.all(|c| c.is_ascii_uppercase() || c == '_' || c.is_ascii_digit())
      }
      _ => false,
    }
  };
  match sig {
    3 if name.is_empty() => Some(MetaVariable::Multiple),
    _ if !valid_name => None,
    3 if name.starts_with('_') => Some(MetaVariable::Multiple),
    3 => Some(MetaVariable::MultiCapture(name)),
    _ if name.starts_with('_') => Some(MetaVariable::Dropped(sig == 1)),
    _ => Some(MetaVariable::Capture(name, sig == 1)),
  }
}

fn strings_upto(alpha: &[char], max: usize) -> Vec<String> {
  let mut all = vec![String::new()];
  let mut frontier = vec![String::new()];
  for _ in 0..max {
    let mut next = vec![];
    for s in &frontier {
      for c in alpha {
        let mut t = s.clone();
        t.push(*c);
        next.push(t);
      }
    }
    all.extend(next.iter().cloned());
    frontier = next;
  }
  all
}

/// pre_process_pattern on text with multi-byte characters around the sigils (the rewrite works on characters, not bytes)
fn stream_preprocess_wide(o: &Opts, out: &mut Out) {
  let alpha = ['$', 'A', 'é', '日', ' '];
  let strs = strings_upto(&alpha, if o.thorough { 6 } else { 5 });
  for lang in SupportLang::all_langs() {
    let expando = lang.expando_char();
    for s in &strs {
      if s.is_ascii() {
        continue;
      }
      let pre = std::panic::catch_unwind(|| lang.pre_process_pattern(s).to_string());
      out.checked();
      match pre {
        Ok(pre) => {
          out.case(2, &vl![Val::Z(expando as i128), Val::chars(s)], &Val::chars(&pre), &format!("pre_process_pattern lang={lang} s={s:?}"));
          // direct oracle: only sigils change, one for one
          let ok = pre.chars().count() == s.chars().count() && pre.chars().zip(s.chars()).all(|(a, b)| a == b || (b == '$' && a == expando));
          if !ok {
            out.oracle_fail("", &format!("lang={lang}: pre-processing the pattern {s:?} gives {pre:?}: something other than sigils changed"), serde_json::json!({"stream": "c20-preprocess", "lang": lang.to_string(), "pattern": s}));
          }
        }
        Err(_) => {
          out.oracle_fail("", &format!("lang={lang}: pre-processing the pattern {s:?} panics"), serde_json::json!({"stream": "c20-preprocess", "lang": lang.to_string(), "pattern": s}));
        }
      }
    }
  }
}

fn stream_extract(o: &Opts, out: &mut Out) {
  stream_preprocess_wide(o, out);
  let alpha = ['$', 'A', 'a', '_', '1'];
  let max = if o.thorough { 7 } else { 5 };
  let strs = strings_upto(&alpha, max);
  for lang in SupportLang::all_langs() {
    let expando = lang.expando_char();
    for s in &strs {
      let pre = lang.pre_process_pattern(s);
      let got = lang.extract_meta_var(&pre);
      // tie: model of pre_process_pattern + extract_meta_var with this language's expando
      out.case(
        3,
        &vl![Val::Z(expando as i128), Val::chars(s)],
        &vl![Val::chars(&pre), v_metavar(&got)],
        &format!("extract lang={lang} s={s:?}"),
      );
      // direct oracle: identical, documented meaning in every language
      out.checked();
      let want = spec_classify(s);
      if got.is_some() {
        out.nontrivial(&(s.clone(), lang.to_string()));
      }
      out.count(match &got {
        None => "extract:none",
        Some(MetaVariable::Capture(..)) => "extract:capture",
        Some(MetaVariable::Dropped(..)) => "extract:dropped",
        Some(MetaVariable::Multiple) => "extract:multiple",
        Some(MetaVariable::MultiCapture(..)) => "extract:multicapture",
      });
      if got != want {
        let class = if expando == '_' {
          "expando-underscore"
        } else if matches!(&got, Some(MetaVariable::MultiCapture(n)) if n.starts_with(|c: char| c.is_ascii_digit()))
          && want.is_none()
        {
          "ellipsis-digit-first-name"
        } else {
          ""
        };
        out.oracle_fail(
          class,
          &format!("lang={lang} pattern text {s:?} is classified {got:?}, the documented meaning is {want:?}"),
          json!({"stream": "extract", "lang": lang.to_string(), "s": s, "got": format!("{got:?}"), "want": format!("{want:?}")}),
        );
      }
    }
  }
  out.sample(json!({"stream": "extract", "lang": "Python", "s": "$$A1", "expando": "µ"}));
}

/// which 1-based indices among `n` named siblings a rule `nthChild: <s>` selects, through the real rule loader
fn anb_via_rule(s: &str, n: usize) -> Result<Vec<usize>, String> {
  let yaml = format!(
    "id: t\nlanguage: JavaScript\nrule:\n  kind: identifier\n  nthChild: {}\n",
    serde_json::to_string(s).unwrap()
  );
  let globals = GlobalRules::default();
  let r = catch_unwind(AssertUnwindSafe(|| from_yaml_string::<SupportLang>(&yaml, &globals)));
  let cfgs = match r {
    Err(_) => return Err("panic".into()),
    Ok(Err(e)) => {
      // map the error to a small class
      let mut msg = String::new();
      let mut cur: Option<&dyn std::error::Error> = Some(&e);
      while let Some(c) = cur {
        msg.push_str(&c.to_string());
        msg.push('|');
        cur = c.source();
      }
      let class = if msg.contains("Illegal character") {
        "illegal"
      } else if msg.contains("Invalid syntax") {
        "syntax"
      } else {
        "other"
      };
      return Err(class.into());
    }
    Ok(Ok(c)) => c,
  };
  let src = format!("[{}]", vec!["a"; n].join(","));
  let doc = SupportLang::JavaScript.ast_grep(&src);
  let cfg = &cfgs[0];
  let r = catch_unwind(AssertUnwindSafe(|| {
    let mut idx = vec![];
    for nm in doc.root().find_all(&cfg.matcher) {
      // element i (1-based) starts at byte 1 + 2*(i-1)
      idx.push((nm.range().start - 1) / 2 + 1);
    }
    idx
  }));
  r.map_err(|_| "panic-match".to_string())
}

/// independent spec of the An+B notation: grammar  [sign] [digits] n [sign digits] | [sign] digits, blanks ignored
fn spec_anb(s: &str) -> Option<(i64, i64)> {
  // a magnitude beyond i32::MAX is not expressible: the implementation answers with an error (never a panic)
  let too_big = std::cell::Cell::new(false);
  let r = spec_anb_inner(s, &too_big);
  if too_big.get() { None } else { r }
}

fn spec_anb_inner(s: &str, too_big: &std::cell::Cell<bool>) -> Option<(i64, i64)> {
  let t: Vec<char> = s.chars().filter(|c| !c.is_whitespace()).collect();
  let mut i = 0;
  let sign = |i: &mut usize| -> i64 {
    if *i < t.len() && (t[*i] == '+' || t[*i] == '-') {
      *i += 1;
      if t[*i - 1] == '-' { -1 } else { 1 }
    } else {
      1
    }
  };
  let digits = |i: &mut usize| -> Option<i64> {
    let st = *i;
    let mut v: i64 = 0;
    while *i < t.len() && t[*i].is_ascii_digit() {
      v = (v * 10 + (t[*i] as i64 - 48)).min(1 << 40);
      *i += 1;
    }
    if v > i32::MAX as i64 {
      too_big.set(true);
    }
    if *i == st { None } else { Some(v) }
  };
  let s1 = sign(&mut i);
  let d1 = digits(&mut i);
  if i < t.len() && (t[i] == 'n' || t[i] == 'N') {
    i += 1;
    let a = s1 * d1.unwrap_or(1);
    if i == t.len() {
      return Some((a, 0));
    }
    if t[i] != '+' && t[i] != '-' {
      return None;
    }
    let s2 = sign(&mut i);
    let d2 = digits(&mut i)?;
    if i != t.len() {
      return None;
    }
    Some((a, s2 * d2))
  } else {
    let d = d1?;
    if i != t.len() {
      return None;
    }
    Some((0, s1 * d))
  }
}

fn spec_selected(a: i64, b: i64, n: usize) -> Vec<usize> {
  (1..=n as i64)
    .filter(|i| {
      if a == 0 {
        *i == b
      } else {
        // exists k >= 0 with i = a*k + b
        let d = i - b;
        d % a == 0 && d / a >= 0
      }
    })
    .map(|i| i as usize)
    .collect()
}

fn stream_anb(o: &Opts, out: &mut Out) {
  let alpha = ['n', '+', '-', '0', '1', '2', '3', ' '];
  let max = if o.thorough { 6 } else { 4 };
  let n = if o.thorough { 40 } else { 24 };
  let mut strs = strings_upto(&alpha, max);
  // longer hand-written forms
  for s in ["2n+1", "-n+3", "+5n-3", "N", "3N + 2", "10", "n-1", "-2n+9", "2 n + 1", "n+", "2n3", "--n", "x", "12n+31"] {
    strs.push(s.to_string());
  }
  // random longer ones
  let mut rng = Rng::new(o.seed ^ 0xa2b);
  for _ in 0..(if o.thorough { 4000 } else { 600 }) {
    let len = 5 + rng.below(4);
    strs.push((0..len).map(|_| *rng.pick(&alpha)).collect());
  }
  // canonical spellings of LARGE (A, B), chosen so that the few siblings still observe both numbers exactly:
  // A*1 + B = k selects {k} alone (B <= 0), and (A, k) selects {k} alone when |A| > n. Magnitudes up to the i32
  // boundary on both sides (C20_anb_parse_render: every |A|, |B| <= 2^31-1 parses back to itself), leading zeros
  // (C20_anb_parse_formula), and the first inexpressible magnitude 2^31
  {
    let mx = i32::MAX as i64;
    let mut big: Vec<i64> = vec![mx, mx - 1, mx / 10, mx / 10 + 1, 1_000_000_000, 999_999_999, 214_748_365, 65_536, 100];
    for _ in 0..(if o.thorough { 400 } else { 60 }) {
      big.push(rng.range(25, mx));
    }
    for (j, a) in big.iter().enumerate() {
      let k = 1 + (j as i64 % n as i64);
      strs.push(format!("{a}n{}", k - a));          // A > 0, B = k - A < 0: only n = 1 lands in 1..=n
      strs.push(format!("-{a}n+{k}"));              // A < 0, B = k: only n = 0
      strs.push(format!("{a}n+{k}"));               // A > n, B = k: only n = 0
      strs.push(format!("+000{a} n - 00{}", a - k)); // leading zeros, blanks, explicit plus
      out.count("anb:large-magnitudes");
    }
    for s in ["2147483648n+1", "-2147483648n+1", "n+2147483648", "n-2147483648", "2147483647n-2147483647", "-2147483647n+2147483647", "4294967297n+1", "n+18446744073709551617"] {
      strs.push(s.to_string());
    }
  }
  for s in &strs {
    let got = anb_via_rule(s, n);
    let expected = match &got {
      Ok(idx) => vl![Val::Z(0), Val::L(idx.iter().map(|i| Val::n(*i)).collect())],
      Err(c) => Val::err(c),
    };
    out.case(4, &vl![Val::chars(s), Val::n(n)], &expected, &format!("anb s={s:?} n={n}"));
    out.checked();
    let want = spec_anb(s).map(|(a, b)| spec_selected(a, b, n));
    let ok = match (&got, &want) {
      (Ok(g), Some(w)) => g == w,
      (Err(c), None) => c != "panic" && c != "panic-match",
      _ => false,
    };
    out.count(match &got { Ok(v) if v.is_empty() => "anb:ok-empty", Ok(_) => "anb:ok-selects", Err(_) => "anb:rejected" });
    if let Ok(v) = &got {
      if !v.is_empty() {
        out.nontrivial(&("anb", s.clone()));
      }
    }
    if !ok {
      out.oracle_fail(
        "",
        &format!("nthChild {s:?} over {n} siblings selects {got:?}, the An+B notation means {want:?}"),
        json!({"stream": "anb", "s": s, "n": n, "got": format!("{got:?}"), "want": format!("{want:?}")}),
      );
    }
  }
  out.sample(json!({"stream": "anb", "s": "-n+3", "siblings": n, "selected": [1, 2, 3]}));
}

fn substring_via_rule(text: &str, s: Option<i32>, e: Option<i32>) -> Result<String, String> {
  let mut yaml = String::from(
    "id: t\nlanguage: JavaScript\nrule:\n  pattern: $A\n  kind: string\ntransform:\n  B:\n    substring:\n      source: $A\n",
  );
  if let Some(s) = s {
    yaml.push_str(&format!("      startChar: {s}\n"));
  }
  if let Some(e) = e {
    yaml.push_str(&format!("      endChar: {e}\n"));
  }
  let globals = GlobalRules::default();
  let cfgs = from_yaml_string::<SupportLang>(&yaml, &globals).map_err(|e| format!("load:{e}"))?;
  let src = format!("'{text}'");
  let doc = SupportLang::JavaScript.ast_grep(&src);
  let r = catch_unwind(AssertUnwindSafe(|| {
    let nm = doc.root().find(&cfgs[0].matcher)?;
    let b = nm.get_env().get_transformed("B")?;
    Some(String::from_utf8_lossy(b).into_owned())
  }));
  match r {
    Err(_) => Err("panic".into()),
    Ok(None) => Err("nomatch".into()),
    Ok(Some(s)) => Ok(s),
  }
}

/// Python slice semantics on characters
fn py_slice(chars: &[char], s: Option<i64>, e: Option<i64>) -> String {
  let len = chars.len() as i64;
  let norm = |x: Option<i64>, dft: i64| -> i64 {
    match x {
      None => dft,
      Some(v) => {
        let v = if v < 0 { v + len } else { v };
        v.clamp(0, len)
      }
    }
  };
  let (a, b) = (norm(s, 0), norm(e, len));
  if a >= b {
    String::new()
  } else {
    chars[a as usize..b as usize].iter().collect()
  }
}

fn stream_substring(o: &Opts, out: &mut Out) {
  let texts = ["", "a", "abc", "héllo", "日本語テキスト", "a😀b", "xyzw0123"];
  let bound: i32 = if o.thorough { 10 } else { 7 };
  let mut idx: Vec<Option<i32>> = vec![None];
  idx.extend((-bound..=bound).map(Some));
  idx.extend([Some(i32::MAX), Some(i32::MIN), Some(i32::MIN + 1), Some(1000)]);
  for text in texts {
    // the quoted string node text includes the two quote characters
    let full: Vec<char> = format!("'{text}'").chars().collect();
    for s in &idx {
      for e in &idx {
        let got = substring_via_rule(text, *s, *e);
        let expected = match &got {
          Ok(t) => vl![Val::Z(0), Val::chars(t)],
          Err(c) => Val::err(if c.starts_with("load") { "load" } else { c }),
        };
        let full_s: String = full.iter().collect();
        let vo = |x: &Option<i32>| Val::opt(x.map(|v| Val::Z(v as i128)));
        out.case(5, &vl![Val::chars(&full_s), vo(s), vo(e)], &expected, &format!("substring text={full_s:?} s={s:?} e={e:?}"));
        out.checked();
        let want = py_slice(&full, s.map(|v| v as i64), e.map(|v| v as i64));
        if let Ok(g) = &got {
          if !g.is_empty() {
            out.nontrivial(&("sub", text, *s, *e));
          }
        }
        out.count(match &got { Ok(t) if t.is_empty() => "substring:empty", Ok(_) => "substring:nonempty", Err(_) => "substring:error" });
        if got.as_deref() != Ok(want.as_str()) {
          out.oracle_fail(
            "",
            &format!("substring of {full_s:?} [{s:?}:{e:?}] gives {got:?}, Python slice gives {want:?}"),
            json!({"stream": "substring", "text": full_s, "start": s, "end": e, "got": format!("{got:?}"), "want": want}),
          );
        }
      }
    }
  }
  out.sample(json!({"stream": "substring", "text": "'héllo'", "start": -3, "end": null, "result": "lo'"}));
}

/// independent tokenizer for fix templates: at a sigil, up to three sigils then a maximal non-empty
/// run of [A-Z_0-9] is a variable; anything else is literal text
fn spec_template_vars(t: &str) -> Vec<(bool, String)> {
  let c: Vec<char> = t.chars().collect();
  let mut i = 0;
  let mut vars = vec![];
  while i < c.len() {
    if c[i] != '$' {
      i += 1;
      continue;
    }
    let mut k = 1;
    while k < 3 && i + k < c.len() && c[i + k] == '$' {
      k += 1;
    }
    let mut j = i + k;
    while j < c.len() && (c[j].is_ascii_uppercase() || c[j] == '_' || c[j].is_ascii_digit()) {
      j += 1;
    }
    if j == i + k {
      i += 1;
      continue;
    }
    vars.push((k == 3, c[i + k..j].iter().collect()));
    i = j;
  }
  vars
}

/// the same documented scanner, as a substitution: variable occurrences named A become `a_text`, every other
/// variable occurrence (unbound) becomes nothing, and everything else — lone sigils, lower-case names — stays
fn spec_template_subst(t: &str, a_text: &str) -> String {
  let c: Vec<char> = t.chars().collect();
  let mut i = 0;
  let mut outp = String::new();
  while i < c.len() {
    if c[i] != '$' {
      outp.push(c[i]);
      i += 1;
      continue;
    }
    let mut k = 1;
    while k < 3 && i + k < c.len() && c[i + k] == '$' {
      k += 1;
    }
    let mut j = i + k;
    while j < c.len() && (c[j].is_ascii_uppercase() || c[j] == '_' || c[j].is_ascii_digit()) {
      j += 1;
    }
    if j == i + k {
      outp.push('$');
      i += 1;
      continue;
    }
    let name: String = c[i + k..j].iter().collect();
    if name == "A" {
      outp.push_str(a_text);
    }
    i = j;
  }
  outp
}

fn stream_template(o: &Opts, out: &mut Out) {
  let alpha = ['$', 'A', 'a', '_', '1', ' '];
  let max = if o.thorough { 7 } else { 5 };
  let strs = strings_upto(&alpha, max);
  for s in &strs {
    let fix = TemplateFix::try_new(s, &SupportLang::JavaScript).unwrap();
    let mut got: Vec<String> = fix.used_vars().into_iter().map(|s| s.to_string()).collect();
    got.sort();
    got.dedup();
    let mut want: Vec<String> = spec_template_vars(s).into_iter().map(|x| x.1).collect();
    want.sort();
    want.dedup();
    out.case(
      6,
      &vl![Val::str_bytes(s)],
      &Val::L(got.iter().map(|x| Val::str_bytes(x)).collect()),
      &format!("template used_vars {s:?}"),
    );
    out.checked();
    if !got.is_empty() {
      out.nontrivial(&("tpl", s.clone()));
    }
    out.count(if got.is_empty() { "template:no-var" } else { "template:has-var" });
    // the replacement itself, with A bound to a one-token node: what is not a variable stays literally
    {
      use ast_grep_core::meta_var::MetaVarEnv;
      use ast_grep_core::replacer::Replacer;
      use ast_grep_core::{Language, NodeMatch};
      let sg = SupportLang::JavaScript.ast_grep("XY;");
      let root = sg.root();
      let found = root.dfs().find(|n| n.kind() == "identifier");
      if let Some(x) = found {
        let mut env = MetaVarEnv::new();
        env.insert("A", x.clone());
        let nm = NodeMatch::new(root.clone(), env);
        let rep = std::panic::catch_unwind(std::panic::AssertUnwindSafe(|| fix.generate_replacement(&nm)));
        out.checked();
        match rep {
          Err(_) => out.oracle_fail("", &format!("template {s:?}: generate_replacement panics"), json!({"stream": "template-subst", "template": s})),
          Ok(bytes) => {
            let got_text = String::from_utf8_lossy(&bytes).to_string();
            let want_text = spec_template_subst(s, "XY");
            let venv = vl![Val::L(vec![vl![Val::str_bytes("A"), vl![Val::n(0), Val::n(2)]]]), Val::L(vec![]), Val::L(vec![])];
            out.case(7, &vl![Val::bytes(b"XY;"), Val::n(0), venv, Val::L(vec![]), Val::str_bytes(s)], &Val::bytes(&bytes), &format!("template substitution {s:?} with A = XY"));
            // digit-first and `_`-first names are the known classes of this property: compared by the tie only
            let known_shape = s.contains("$1") || s.contains("$_");
            if got_text != want_text && !known_shape {
              out.oracle_fail("", &format!("template {s:?} with $A = `XY` gives {got_text:?}; the documented scanner gives {want_text:?} (what is not a variable must stay literally)"),
                json!({"stream": "template-subst", "template": s, "got": got_text, "want": want_text}));
            }
          }
        }
      }
    }
    if got != want {
      out.oracle_fail(
        "",
        &format!("template {s:?} uses variables {got:?}, the documented scanner gives {want:?}"),
        json!({"stream": "template", "template": s, "got": got, "want": want}),
      );
    }
  }
  out.sample(json!({"stream": "template", "template": "$A$$$B1 a$b", "vars": ["A", "B1"]}));
}

pub fn run(o: &Opts) {
  let mut out = Out::new(&o.out);
  stream_extract(o, &mut out);
  stream_anb(o, &mut out);
  stream_substring(o, &mut out);
  stream_template(o, &mut out);
  out.finish(
    "exhaustive strings over {$,A,a,_,1} (length<=5 quick, <=7 thorough) x 23 languages through pre_process_pattern+extract_meta_var; \
     An+B strings over {n,+,-,0..3,blank} (length<=4 quick, <=6 thorough) plus random longer ones through a real nthChild rule on a synthetic sibling list; \
     substring start/end pairs in [-7,7] (thorough [-10,10]) plus i32 extremes on 7 texts incl. multi-byte through a real transform; \
     fix templates over {$,A,a,_,1,blank} through TemplateFix::used_vars. non-trivial = the input denotes a hole / selects a sibling / yields a non-empty slice / has a variable",
  );
}
