//! xorshift64* — every random choice of the harness derives from one state.
#[derive(Clone)]
pub struct Rng(pub u64);

impl Rng {
  pub fn new(seed: u64) -> Self {
    let mut r = Rng(seed ^ 0x9E37_79B9_7F4A_7C15);
    if r.0 == 0 {
      r.0 = 0x1234_5678_9abc_def1;
    }
    for _ in 0..8 {
      r.next();
    }
    r
  }
  pub fn next(&mut self) -> u64 {
    let mut x = self.0;
    x ^= x >> 12;
    x ^= x << 25;
    x ^= x >> 27;
    self.0 = x;
    x.wrapping_mul(0x2545_F491_4F6C_DD1D)
  }
  pub fn below(&mut self, n: usize) -> usize {
    if n == 0 {
      0
    } else {
      (self.next() % n as u64) as usize
    }
  }
  pub fn range(&mut self, lo: i64, hi: i64) -> i64 {
    lo + (self.next() % ((hi - lo + 1) as u64)) as i64
  }
  pub fn chance(&mut self, num: usize, den: usize) -> bool {
    self.below(den) < num
  }
  pub fn shuffle<T>(&mut self, xs: &mut [T]) {
    for i in (1..xs.len()).rev() {
      let j = self.below(i + 1);
      xs.swap(i, j);
    }
  }
  pub fn pick<'a, T>(&mut self, xs: &'a [T]) -> &'a T {
    &xs[self.below(xs.len())]
  }
  pub fn fork(&mut self) -> Rng {
    Rng::new(self.next())
  }
}
