//! Source corpus: committed snippets under /verif/corpus/<Lang>/, files harvested from /repo by
//! extension at run time, and token-level mutations of both.
use crate::rng::Rng;
use ast_grep_core::{AstGrep, Language, Node, StrDoc};
use ast_grep_language::SupportLang;
use std::path::{Path, PathBuf};

pub type Doc = StrDoc<SupportLang>;
pub type Sg = AstGrep<Doc>;
pub type N<'a> = Node<'a, Doc>;

pub fn root_dir() -> PathBuf {
  PathBuf::from(std::env::var("VH_ROOT").unwrap_or_else(|_| "/verif".into()))
}
pub fn repo_dir() -> PathBuf {
  PathBuf::from(std::env::var("VH_REPO").unwrap_or_else(|_| "/repo".into()))
}

pub fn lang_ext(l: SupportLang) -> &'static str {
  use SupportLang::*;
  match l {
    Bash => "sh", C => "c", Cpp => "cpp", CSharp => "cs", Css => "css", Elixir => "ex", Go => "go",
    Haskell => "hs", Html => "html", Java => "java", JavaScript => "js", Json => "json", Kotlin => "kt",
    Lua => "lua", Php => "php", Python => "py", Ruby => "rb", Rust => "rs", Scala => "scala",
    Swift => "swift", Tsx => "tsx", TypeScript => "ts", Yaml => "yml",
  }
}

fn walk(dir: &Path, ext: &str, out: &mut Vec<PathBuf>, depth: usize) {
  if depth > 8 {
    return;
  }
  let Ok(rd) = std::fs::read_dir(dir) else { return };
  let mut entries: Vec<_> = rd.filter_map(|e| e.ok()).map(|e| e.path()).collect();
  entries.sort();
  for p in entries {
    let name = p.file_name().and_then(|s| s.to_str()).unwrap_or("");
    if name.starts_with('.') || name == "target" || name == "node_modules" {
      continue;
    }
    if p.is_dir() {
      walk(&p, ext, out, depth + 1);
    } else if p.extension().and_then(|s| s.to_str()) == Some(ext) {
      out.push(p);
    }
  }
}

/// cut a long text into chunks of whole lines of at most `max` bytes
fn chunks(text: &str, max: usize) -> Vec<String> {
  let mut out = vec![];
  let mut cur = String::new();
  for line in text.split_inclusive('\n') {
    if cur.len() + line.len() > max && !cur.is_empty() {
      out.push(std::mem::take(&mut cur));
    }
    cur.push_str(line);
  }
  if !cur.is_empty() {
    out.push(cur);
  }
  out
}

/// committed corpus files of a language (whole files)
pub fn committed(lang: SupportLang) -> Vec<String> {
  let mut files = vec![];
  walk(&root_dir().join("corpus").join(lang.to_string()), lang_ext(lang), &mut files, 0);
  files.iter().filter_map(|p| std::fs::read_to_string(p).ok()).collect()
}

/// harvested from the repository itself (chunked to `max` bytes)
pub fn harvested(lang: SupportLang, max: usize) -> Vec<String> {
  let mut files = vec![];
  let ext = lang_ext(lang);
  walk(&repo_dir().join("crates"), ext, &mut files, 0);
  walk(&repo_dir().join("npm"), ext, &mut files, 0);
  walk(&repo_dir().join("schemas"), ext, &mut files, 0);
  if ext == "yml" {
    walk(&repo_dir().join(".github"), ext, &mut files, 0);
  }
  let mut out = vec![];
  for p in files {
    if let Ok(t) = std::fs::read_to_string(&p) {
      out.extend(chunks(&t, max));
    }
  }
  out
}

/// `n` sources for a language: committed ones first (chunked), then a seeded sample of harvested chunks
pub fn sources(lang: SupportLang, rng: &mut Rng, n: usize, max: usize) -> Vec<String> {
  let mut out: Vec<String> = vec![];
  for f in committed(lang) {
    out.extend(chunks(&f, max));
  }
  let h = harvested(lang, max);
  while out.len() < n && !h.is_empty() {
    out.push(h[rng.below(h.len())].clone());
    if out.len() >= n {
      break;
    }
  }
  if out.len() > n {
    // keep a seeded subset, always including the first chunk of the committed files
    let mut keep = vec![out[0].clone()];
    while keep.len() < n {
      keep.push(out[rng.below(out.len())].clone());
    }
    out = keep;
  }
  out
}

/// text-level mutation that tends to produce ERROR / MISSING nodes, multi-byte text, CRLF …
pub fn mutate(src: &str, rng: &mut Rng) -> String {
  let chars: Vec<char> = src.chars().collect();
  if chars.is_empty() {
    return "(".into();
  }
  let mut out = chars.clone();
  match rng.below(7) {
    0 => {
      // delete a short span
      let i = rng.below(out.len());
      let l = 1 + rng.below(6);
      let j = (i + l).min(out.len());
      out.drain(i..j);
    }
    1 => {
      // duplicate a span
      let i = rng.below(out.len());
      let j = (i + 1 + rng.below(12)).min(out.len());
      let seg: Vec<char> = out[i..j].to_vec();
      for (k, c) in seg.into_iter().enumerate() {
        out.insert(j + k, c);
      }
    }
    2 => {
      // inject multi-byte text
      let i = rng.below(out.len() + 1);
      for (k, c) in "é日😀".chars().enumerate() {
        out.insert(i + k, c);
      }
    }
    3 => {
      // CRLF everywhere
      let s: String = out.iter().collect();
      return s.replace('\n', "\r\n");
    }
    4 => {
      // unbalance a bracket
      let i = rng.below(out.len() + 1);
      out.insert(i, *rng.pick(&['(', ')', '{', '}', '[', ']', '"', ';', ',']));
    }
    5 => {
      // drop trailing newline / truncate
      let i = out.len() - rng.below(out.len().min(20));
      out.truncate(i);
    }
    _ => {
      // swap two spans
      let i = rng.below(out.len());
      let j = rng.below(out.len());
      out.swap(i, j);
    }
  }
  out.into_iter().collect()
}

pub fn parse(lang: SupportLang, src: &str) -> Sg {
  lang.ast_grep(src)
}

pub fn all_nodes<'a>(root: N<'a>) -> Vec<N<'a>> {
  root.dfs().collect()
}

pub fn has_error(root: &N) -> bool {
  root.get_ts_node().has_error()
}

/// error-free pieces of a source: runs of consecutive top-level children (statements, declarations)
/// of at most `max` bytes, re-parsed and kept only when the piece parses without error
pub fn clean_chunks(lang: SupportLang, src: &str, max: usize) -> Vec<String> {
  let sg = parse(lang, src);
  let root = sg.root();
  let mut tops: Vec<(usize, usize)> = root.children().map(|c| (c.range().start, c.range().end)).collect();
  // some grammars wrap everything in one node: descend while there is a single big child
  let mut cur = root.clone();
  while tops.len() == 1 && tops[0].1 - tops[0].0 > max {
    let Some(only) = cur.children().next() else { break };
    tops = only.children().map(|c| (c.range().start, c.range().end)).collect();
    cur = only;
  }
  let mut out = vec![];
  let mut i = 0;
  while i < tops.len() {
    let s = tops[i].0;
    let mut j = i;
    while j + 1 < tops.len() && tops[j + 1].1 - s <= max {
      j += 1;
    }
    let e = tops[j].1;
    if e > s && e - s <= max * 2 {
      // start at the beginning of the line so indentation stays meaningful
      let ls = src[..s].rfind('\n').map(|p| p + 1).unwrap_or(0);
      let piece = if src[ls..s].trim().is_empty() { &src[ls..e] } else { &src[s..e] };
      let t = parse(lang, piece);
      if !has_error(&t.root()) {
        out.push(piece.to_string());
      }
    }
    i = j + 1;
  }
  out
}

/// error-free sources for a language: clean chunks of the committed files, then of harvested files
pub fn clean_sources(lang: SupportLang, rng: &mut Rng, n: usize, max: usize) -> Vec<String> {
  let mut all = vec![];
  for f in committed(lang) {
    all.extend(clean_chunks(lang, &f, max));
  }
  if all.len() < n {
    for h in harvested(lang, 6000).into_iter().take(6) {
      all.extend(clean_chunks(lang, &h, max));
    }
  }
  if all.len() <= n {
    return all;
  }
  let mut keep = vec![all[0].clone()];
  while keep.len() < n {
    keep.push(all[rng.below(all.len())].clone());
  }
  keep
}
