//! Output channel of a harness run: tie cases for the model, direct-oracle failures,
//! and measured coverage statistics.
use crate::val::Val;
use serde_json::{json, Map, Value};
use std::collections::hash_map::DefaultHasher;
use std::collections::{BTreeMap, HashSet};
use std::fs::File;
use std::hash::{Hash, Hasher};
use std::io::{BufWriter, Write};
use std::path::{Path, PathBuf};

pub struct Out {
  dir: PathBuf,
  cases: BufWriter<File>,
  oracle: BufWriter<File>,
  pub n_cases: usize,
  pub n_oracle_checks: usize,
  pub n_oracle_fail: usize,
  nontrivial: HashSet<u64>,
  dist: BTreeMap<String, u64>,
  samples: Vec<Value>,
  pub max_samples: usize,
  extra: Map<String, Value>,
}

impl Out {
  pub fn new(dir: &Path) -> Out {
    std::fs::create_dir_all(dir).unwrap();
    Out {
      dir: dir.to_path_buf(),
      cases: BufWriter::new(File::create(dir.join("cases.tsv")).unwrap()),
      oracle: BufWriter::new(File::create(dir.join("oracle.jsonl")).unwrap()),
      n_cases: 0,
      n_oracle_checks: 0,
      n_oracle_fail: 0,
      nontrivial: HashSet::new(),
      dist: BTreeMap::new(),
      samples: vec![],
      max_samples: 6,
      extra: Map::new(),
    }
  }
  /// a tie case: the model function `fid` applied to `input` must give `expected`
  /// (what the implementation returned).  `human` goes into the replay when it disagrees.
  pub fn case(&mut self, fid: u32, input: &Val, expected: &Val, human: &str) {
    self.n_cases += 1;
    let h = human.replace(['\t', '\n', '\r'], " ");
    writeln!(self.cases, "{}\t{}\t{}\t{}", fid, input, expected, h).unwrap();
  }
  /// one evaluation of the direct oracle on the implementation
  pub fn checked(&mut self) {
    self.n_oracle_checks += 1;
  }
  /// the direct oracle found the property failing on the implementation.
  /// `class`: empty, or the key of the known-finding class this input falls in.
  pub fn oracle_fail(&mut self, class: &str, what: &str, detail: Value) {
    self.n_oracle_fail += 1;
    let rec = json!({"class": class, "what": what, "detail": detail});
    writeln!(self.oracle, "{}", rec).unwrap();
  }
  pub fn nontrivial<T: Hash>(&mut self, key: &T) {
    let mut h = DefaultHasher::new();
    key.hash(&mut h);
    self.nontrivial.insert(h.finish());
  }
  pub fn count(&mut self, key: &str) {
    *self.dist.entry(key.to_string()).or_insert(0) += 1;
  }
  pub fn count_n(&mut self, key: &str, n: u64) {
    *self.dist.entry(key.to_string()).or_insert(0) += n;
  }
  pub fn sample(&mut self, v: Value) {
    if self.samples.len() < self.max_samples {
      self.samples.push(v);
    }
  }
  pub fn set(&mut self, key: &str, v: Value) {
    self.extra.insert(key.to_string(), v);
  }
  pub fn finish(mut self, rule: &str) {
    self.cases.flush().unwrap();
    self.oracle.flush().unwrap();
    let mut m = Map::new();
    m.insert("tie_cases".into(), json!(self.n_cases));
    m.insert("oracle_checks".into(), json!(self.n_oracle_checks));
    m.insert("oracle_failures".into(), json!(self.n_oracle_fail));
    m.insert("distinct_nontrivial".into(), json!(self.nontrivial.len()));
    m.insert("rule".into(), json!(rule));
    m.insert("distribution".into(), json!(self.dist));
    m.insert("samples".into(), json!(self.samples));
    for (k, v) in self.extra {
      m.insert(k, v);
    }
    let f = File::create(self.dir.join("stats.json")).unwrap();
    serde_json::to_writer_pretty(f, &Value::Object(m)).unwrap();
  }
}
