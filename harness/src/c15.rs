//! C15 — a rule runs on a file exactly when language, globs and severity say so; exit status.
//! Generated projects (sgconfig.yml + rule directory + nested source files of many extensions), every
//! rule matches `foo(..)` which every source file contains, so "rule applied to file" = "finding reported".
use crate::cli::{fresh_dir, json_lines, sg};
use crate::out::Out;
use crate::rng::Rng;
use crate::val::Val;
use crate::{vl, Opts};
use globset::{Glob, GlobSetBuilder};
use serde_json::json;
use std::collections::{BTreeMap, BTreeSet};

const LANGS: [(&str, &[&str]); 4] = [
  ("JavaScript", &["js", "mjs", "cjs", "jsx"]),
  ("TypeScript", &["ts", "mts", "cts"]),
  ("Tsx", &["tsx"]),
  ("Python", &["py", "py3", "pyi", "bzl"]),
];
const SEVS: [&str; 5] = ["error", "warning", "info", "hint", "off"];

struct Rule {
  id: String,
  lang: usize,
  sev: usize,
  files: Option<Vec<String>>,
  ignores: Option<Vec<String>>,
}

/// a languageGlobs pattern (`*.ext` or a bare file name) is matched against the file NAME
fn lg_hit(g: &str, path: &str) -> bool {
  let base = path.rsplit('/').next().unwrap();
  if let Some(ext) = g.strip_prefix("*.") { base.ends_with(&format!(".{ext}")) } else { base == g }
}

pub fn run(o: &Opts) {
  let mut out = Out::new(&o.out);
  let mut rng = Rng::new(o.seed ^ 0xc15);
  let projects = if o.thorough { 40 } else { 12 };
  let mut sampled = false;
  let glob_pool = ["src/**", "**/*.js", "**/*.ts", "lib/**/*.py", "src/a/**", "**/test_*", "*.tsx", "**/b/**", "src/*.mjs", "**/*.pyi", "nomatch/**"];
  for pi in 0..projects {
    let dir = fresh_dir(&o.out, &format!("proj_{pi}"));
    std::fs::create_dir_all(dir.join("rules")).unwrap();
    std::fs::write(dir.join("sgconfig.yml"), "ruleDirs:\n  - rules\n").unwrap();
    // files
    let mut files: Vec<(String, Option<usize>)> = vec![];
    let dirs = ["", "src/", "src/a/", "src/a/b/", "lib/", "lib/b/", "test/"];
    for (li, (_, exts)) in LANGS.iter().enumerate() {
      for e in exts.iter() {
        for _ in 0..(1 + rng.below(2)) {
          let d = rng.pick(&dirs);
          let name = if rng.chance(1, 4) { format!("{d}test_{}.{e}", files.len()) } else { format!("{d}f{}.{e}", files.len()) };
          files.push((name, Some(li)));
        }
      }
    }
    files.push(("src/readme.md".into(), None));
    files.push(("lib/data.txt".into(), None));
    files.push(("src/a/noext".into(), None));
    // configured language globs (half of the projects): a new extension, a bare file name, and globs that RE-ASSIGN an
    // extension a builtin language claims (the configured language then is the file's language)
    let mut lang_globs: Vec<(usize, &str)> = vec![];
    let mut builtin_lang: BTreeMap<String, Option<usize>> = BTreeMap::new();
    let mut glob_lang: BTreeMap<String, usize> = BTreeMap::new();
    if pi % 2 == 1 {
      let pool: [(usize, &str); 6] = [(3, "*.pyx"), (2, "*.ts"), (0, "*.mts"), (1, "*.jsx"), (0, "noext"), (1, "*.tsx")];
      for _ in 0..(1 + rng.below(3)) {
        let e = *rng.pick(&pool);
        if !lang_globs.iter().any(|g| g.1 == e.1) {
          lang_globs.push(e);
        }
      }
      files.push(("src/mod.pyx".into(), None));
      files.push(("ext.pyx".into(), None));
      let mut cfg = String::from("ruleDirs:\n  - rules\nlanguageGlobs:\n");
      for (li, _) in LANGS.iter().enumerate() {
        let gs: Vec<&str> = lang_globs.iter().filter(|g| g.0 == li).map(|g| g.1).collect();
        if !gs.is_empty() {
          cfg.push_str(&format!("  {}: {}\n", LANGS[li].0, serde_json::to_string(&gs).unwrap()));
        }
      }
      std::fs::write(dir.join("sgconfig.yml"), cfg).unwrap();
      for (f, lang) in files.iter_mut() {
        builtin_lang.insert(f.clone(), *lang);
        let base = f.rsplit('/').next().unwrap();
        for (li, g) in &lang_globs {
          let _ = base;
          if lg_hit(g, f) {
            if *lang != Some(*li) {
              out.count("language-globs:file-reassigned");
            }
            *lang = Some(*li);
            glob_lang.insert(f.clone(), *li);
          }
        }
      }
      out.count("language-globs:project");
    }
    for (f, _) in &files {
      let p = dir.join(f);
      std::fs::create_dir_all(p.parent().unwrap()).unwrap();
      std::fs::write(&p, "foo(1)\n").unwrap();
    }
    // rules
    let nrules = 2 + rng.below(5);
    let mut rules: Vec<Rule> = vec![];
    for i in 0..nrules {
      let pickg = |rng: &mut Rng| -> Option<Vec<String>> {
        if rng.chance(1, 2) { None } else { Some((0..1 + rng.below(2)).map(|_| rng.pick(&glob_pool).to_string()).collect()) }
      };
      let mut r = Rule { id: format!("r{i}-{}", ["alpha", "beta", "gamma"][i % 3]), lang: rng.below(LANGS.len()), sev: rng.below(5), files: pickg(&mut rng), ignores: if rng.chance(1, 3) { pickg(&mut rng) } else { None } };
      // complementary pairs: the globs one rule lists under `files` are the next rule's `ignores` (same language, so both
      // see the same files), and the other way round
      if i > 0 && i % 2 == 1 {
        let prev: &Rule = &rules[i - 1];
        if prev.files.is_some() || prev.ignores.is_some() {
          r.lang = prev.lang;
          r.files = prev.ignores.clone();
          r.ignores = prev.files.clone();
          if r.sev == 4 { r.sev = 0; }
          out.count("rules:complementary-files-ignores-pair");
        }
      }
      let mut y = format!("id: {}\nlanguage: {}\nseverity: {}\nmessage: m\nrule:\n  pattern: foo($A)\n", r.id, LANGS[r.lang].0, SEVS[r.sev]);
      if let Some(f) = &r.files { y.push_str(&format!("files: {}\n", serde_json::to_string(f).unwrap())); }
      if let Some(f) = &r.ignores { y.push_str(&format!("ignores: {}\n", serde_json::to_string(f).unwrap())); }
      // rule files in nested directories, several rules per file sometimes
      std::fs::write(dir.join(format!("rules/{}.yml", r.id)), y).unwrap();
      rules.push(r);
    }
    // flag sets
    let nflag = if o.thorough { 6 } else { 4 };
    for fi in 0..nflag {
      let mut args: Vec<String> = vec!["scan".into(), "--json=stream".into()];
      // (flag index) -> None | Some(ids)
      let mut flags: Vec<Option<Vec<String>>> = vec![None; 5];
      let mut filter: Option<String> = None;
      if fi > 0 {
        for s in 0..5 {
          match rng.below(6) {
            0 => { flags[s] = Some(vec![]); args.push(format!("--{}", SEVS[s])); }
            1 | 2 => {
              let ids: Vec<String> = (0..1 + rng.below(2)).map(|_| rng.pick(&rules).id.clone()).collect();
              for id in &ids { args.push(format!("--{}={}", SEVS[s], id)); }
              flags[s] = Some(ids);
            }
            _ => {}
          }
        }
        if rng.chance(1, 4) {
          let f = *rng.pick(&["alpha", "beta|gamma", "^r[0-2]", "r1"]);
          filter = Some(f.to_string());
          args.push("--filter".into());
          args.push(f.to_string());
        }
      }
      let argv: Vec<&str> = args.iter().map(|x| x.as_str()).collect();
      let r = sg(&dir, &argv, None, 60);
      out.checked();
      let what = format!("sg {} in a project of {} files and rules {:?}", args.join(" "), files.len(), rules.iter().map(|r| format!("{}:{}:{}:files={:?}:ignores={:?}", r.id, LANGS[r.lang].0, SEVS[r.sev], r.files, r.ignores)).collect::<Vec<_>>());
      // ---- expectation, written from the property text
      let filt_ids: Option<Vec<String>> = filter.as_ref().map(|f| { let re = regex::Regex::new(f).unwrap(); rules.iter().filter(|r| re.is_match(&r.id)).map(|r| r.id.clone()).collect() });
      if let Some(ids) = &filt_ids {
        if ids.is_empty() {
          // --filter selecting nothing is an error
          if r.code == Some(0) {
            out.oracle_fail("", &format!("{what}: --filter selects no rule but the command succeeds"), json!({"stream": "c15"}));
          }
          continue;
        }
      }
      let eff = |r: &Rule| -> usize {
        let mut by_id: Option<usize> = None;
        let mut default: Option<usize> = None;
        for s in 0..5 {
          match &flags[s] {
            Some(ids) if ids.is_empty() => default = Some(s),
            Some(ids) if ids.contains(&r.id) => by_id = Some(s),
            _ => {}
          }
        }
        by_id.or(default).unwrap_or(r.sev)
      };
      let gmatch = |globs: &Vec<String>, path: &str| -> bool {
        let mut b = GlobSetBuilder::new();
        for g in globs { b.add(Glob::new(g).unwrap()); }
        b.build().unwrap().is_match(path)
      };
      let mut want: BTreeSet<(String, String)> = BTreeSet::new();
      let mut want_err = false;
      for (f, lang) in &files {
        for rl in &rules {
          let sel = filt_ids.as_ref().map(|ids| ids.contains(&rl.id)).unwrap_or(true);
          let e = eff(rl);
          let ok = sel && e != 4 && *lang == Some(rl.lang) && rl.files.as_ref().map(|g| gmatch(g, f)).unwrap_or(true) && !rl.ignores.as_ref().map(|g| gmatch(g, f)).unwrap_or(false);
          if ok {
            want.insert((f.clone(), rl.id.clone()));
            if e == 0 { want_err = true; }
          }
        }
      }
      if r.timed_out {
        out.oracle_fail("", &format!("{what}: timed out"), json!({"stream": "c15"}));
        continue;
      }
      let recs = json_lines(&r.stdout).unwrap_or_default();
      let got: BTreeSet<(String, String)> = recs.iter().map(|x| (x["file"].as_str().unwrap_or("").trim_start_matches("./").to_string(), x["ruleId"].as_str().unwrap_or("").to_string())).collect();
      out.count(if want.is_empty() { "run:nothing-applies" } else { "run:some-rule-applies" });
      if !want.is_empty() {
        out.nontrivial(&(pi, fi, args.clone()));
        if !sampled {
          sampled = true;
          out.sample(json!({"cmd": args.join(" "), "rules": rules.len(), "files": files.len(), "applied_pairs": want.len()}));
        }
      }
      if got != want {
        out.oracle_fail("", &format!("{what}: {} (file, rule) pairs reported, language/globs/severity demand {}; first difference: {:?}", got.len(), want.len(), got.symmetric_difference(&want).next()), json!({"stream": "c15-applies"}));
        continue;
      }
      let nonzero = r.code != Some(0);
      if nonzero != want_err {
        out.oracle_fail("", &format!("{what}: exit status {:?}, but {} finding has effective severity error", r.code, if want_err { "a" } else { "no" }), json!({"stream": "c15-exit"}));
      }
      // ---- tie: the model's selection on the same project (globs and filter as oracle tables)
      let mut all_globs: Vec<String> = vec![];
      for rl in &rules {
        for g in rl.files.iter().flatten().chain(rl.ignores.iter().flatten()) {
          if !all_globs.contains(g) { all_globs.push(g.clone()); }
        }
      }
      let gid = |g: &String| Val::n(all_globs.iter().position(|x| x == g).unwrap());
      let optids = |v: &Option<Vec<String>>| Val::opt(v.as_ref().map(|ids| Val::L(ids.iter().map(|i| Val::str_bytes(i)).collect())));
      let wire_args = vl![optids(&flags[0]), optids(&flags[1]), optids(&flags[2]), optids(&flags[3]), optids(&flags[4]), optids(&filt_ids)];
      let wire_rules = Val::L(rules.iter().map(|rl| vl![Val::str_bytes(&rl.id), Val::n(rl.lang), Val::n(rl.sev),
        Val::opt(rl.files.as_ref().map(|g| Val::L(g.iter().map(gid).collect()))), Val::opt(rl.ignores.as_ref().map(|g| Val::L(g.iter().map(gid).collect())))]).collect());
      let wire_files = Val::L(files.iter().map(|(f, l)| vl![Val::opt(builtin_lang.get(f).copied().unwrap_or(*l).map(Val::n)), Val::L(all_globs.iter().enumerate().filter(|(_, g)| gmatch(&vec![(*g).clone()], f)).map(|(i, _)| Val::n(i)).chain(lang_globs.iter().enumerate().filter(|(_, g)| lg_hit(g.1, f)).map(|(i, _)| Val::n(1000 + i))).collect())]).collect());
      let wire_regs = Val::L(LANGS.iter().enumerate().filter(|(li, _)| lang_globs.iter().any(|g| g.0 == *li)).map(|(li, (name, _))| vl![Val::str_bytes(name), Val::n(li),
        Val::L(lang_globs.iter().enumerate().filter(|(_, g)| g.0 == li).map(|(i, _)| Val::n(1000 + i)).collect())]).collect());
      // observed: per file, the applied rule ids sorted, with the severity the record carries
      let mut per: BTreeMap<String, BTreeSet<(String, usize)>> = BTreeMap::new();
      for x in &recs {
        let f = x["file"].as_str().unwrap_or("").trim_start_matches("./").to_string();
        let sv = SEVS.iter().position(|s| Some(*s) == x["severity"].as_str()).unwrap_or(9);
        per.entry(f).or_default().insert((x["ruleId"].as_str().unwrap_or("").to_string(), sv));
      }
      let exp = Val::L(files.iter().map(|(f, _)| Val::L(per.get(f).map(|s| s.iter().map(|(id, sv)| vl![Val::str_bytes(id), Val::n(*sv)]).collect()).unwrap_or_default())).collect());
      out.case(47, &vl![wire_args, wire_rules, wire_files, wire_regs], &exp, &format!("rule selection: {}", what.chars().take(400).collect::<String>()));
    }
  }
  // ---- files scanned as several documents (an HTML page hosting script and style): the exit status counts the
  //      error-severity findings of EVERY document of every file
  {
    let cases: Vec<(&str, &str, bool)> = vec![
      // (page, which rule is `error`, must the scan fail?)
      ("<marquee>hi</marquee>\n<script>let a = 1</script>\n", "host", true),
      ("<marquee>hi</marquee>\n<script>foo(1)</script>\n<style>a { color: red; }</style>\n", "host", true),
      ("<p>hi</p>\n<script>foo(1)</script>\n<style>a { color: red; }</style>\n", "script", true),
      ("<p>hi</p>\n<script>foo(1)</script>\n<script lang=\"javascript\">let b = 2</script>\n", "script", true),
      ("<p>hi</p>\n<script>let c = 3</script>\n", "host", false),
      ("<marquee>x</marquee>\n<script>foo(2)</script>\n", "none", false),
    ];
    for (ci, (page, err_rule, want_fail)) in cases.iter().enumerate() {
      let p = fresh_dir(&o.out, &format!("multi_doc_{ci}"));
      std::fs::create_dir_all(p.join("rules")).unwrap();
      std::fs::write(p.join("sgconfig.yml"), "ruleDirs: [rules]\n").unwrap();
      let sev = |r: &str| if *err_rule == r { "error" } else { "warning" };
      std::fs::write(p.join("rules/host.yml"), format!("id: no-marquee\nlanguage: html\nseverity: {}\nmessage: m\nrule:\n  kind: element\n  regex: '^<marquee'\n", sev("host"))).unwrap();
      std::fs::write(p.join("rules/script.yml"), format!("id: no-foo\nlanguage: JavaScript\nseverity: {}\nmessage: m\nrule:\n  pattern: foo($A)\n", sev("script"))).unwrap();
      std::fs::write(p.join("page.html"), page).unwrap();
      std::fs::write(p.join("plain.js"), "bar(1)\n").unwrap();
      let r = sg(&p, &["scan", "--json=stream"], None, 60);
      out.checked();
      out.count("exit-status:multi-document-file");
      let recs = json_lines(&r.stdout).unwrap_or_default();
      let has_error = recs.iter().any(|v| v["severity"] == "error");
      let failed = r.code != Some(0);
      if r.timed_out || has_error != *want_fail || failed != *want_fail {
        out.oracle_fail("", &format!("sg scan on an HTML page hosting script/style ({page:?}, error rule: {err_rule}): exit status {:?}, findings with severity error: {has_error}; expected the scan to {}", r.code, if *want_fail { "fail (an error-severity finding exists)" } else { "succeed" }),
          json!({"stream": "c15-exit-multi-document", "page": page}));
      }
    }
  }
  out.finish("generated projects (sgconfig.yml, a rule directory with 2-6 rules over 4 languages, severities error/warning/info/hint/off, files / ignores globs from a pool, ~25 source files of every extension of those languages \
              plus foreign files in nested directories, each containing a match of every rule), `sg scan --json=stream` from the project root with no flags and with random combinations of --error/--warning/--info/--hint/--off \
              (bare and with ids, conflicting ones included) and --filter: the (file, rule) pairs reported and the exit status against language / globs / effective severity computed from the property text (globs by globset directly), \
              and the model's selection (tie). non-trivial = some rule applies to some file");
}
