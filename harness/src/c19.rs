//! C19 — tree navigation and positions are mutually consistent on every tree.
//! Tie: traversals / navigation / positions of the public Node API vs the model on the dumped tree.
//! Direct oracle: the API against recursive baselines computed from children() only.
use crate::corpus::{self, N};
use crate::dump::dump_tree_at;
use crate::out::Out;
use crate::rng::Rng;
use crate::val::Val;
use crate::{vl, Opts};
use ast_grep_core::traversal::{Level, Post, Pre};
use ast_grep_language::SupportLang;
use serde_json::json;
use std::collections::HashMap;

fn pre_rec<'a>(n: &N<'a>, out: &mut Vec<usize>) {
  out.push(n.node_id());
  for c in n.children() {
    pre_rec(&c, out);
  }
}
fn post_rec<'a>(n: &N<'a>, out: &mut Vec<usize>) {
  for c in n.children() {
    post_rec(&c, out);
  }
  out.push(n.node_id());
}
fn level_rec<'a>(n: &N<'a>) -> Vec<usize> {
  let mut out = vec![];
  let mut cur: Vec<N<'a>> = vec![n.clone()];
  while !cur.is_empty() {
    let mut next = vec![];
    for x in &cur {
      out.push(x.node_id());
      next.extend(x.children());
    }
    cur = next;
  }
  out
}

pub fn run(o: &Opts) {
  let mut out = Out::new(&o.out);
  let mut rng = Rng::new(o.seed ^ 0xc19);
  let nsrc = if o.thorough { 8 } else { 3 };
  let mut sampled = false;
  let mut wf_bad = 0u64;
  for lang in SupportLang::all_langs().iter().copied() {
    let mut srcs = corpus::sources(lang, &mut rng, nsrc, if o.thorough { 2500 } else { 1200 });
    let extra: Vec<String> = srcs.iter().take(2).map(|s| corpus::mutate(s, &mut rng)).collect();
    srcs.extend(extra);
    // texts with lone CR, CRLF, tabs, multi-byte characters at line starts and empty regions
    if let Some(s0) = srcs.first().cloned() {
      srcs.push(s0.replace('\n', "\r\n"));
      let mut it = s0.splitn(3, '\n');
      let (a, b, c) = (it.next().unwrap_or(""), it.next().unwrap_or(""), it.next().unwrap_or(""));
      srcs.push(format!("{a}\r{b}\n\n\n日本語 {c}"));
    }
    // every line starts with two characters of one UTF-8 width class, the boundary code points of each class
    // included (U+7F/U+80, U+7FF/U+800, U+FFF/U+1000, U+FFFF/U+10000, U+10FFFF) and scripts living at them
    if let Some(s0) = srcs.first().cloned() {
      let classes = ["\u{7f}\u{80}", "\u{7ff}\u{7ff}", "\u{800}\u{800}", "สวัสดี", "\u{fff}\u{1000}", "\u{d7ff}\u{e000}", "\u{fffd}\u{ffff}", "\u{10000}\u{10ffff}", "नमस्ते", "ༀ\u{e01}a\u{e01}"];
      let off = rng.below(classes.len());
      let v: Vec<String> = s0.split('\n').take(40).enumerate().map(|(i, l)| format!("{} {l}", classes[(i + off) % classes.len()])).collect();
      srcs.push(v.join("\n"));
      out.count("source:utf8-width-class-prefixes");
    }
    srcs.push(String::new());
    // documents that were EDITED into their text (AstGrep::edit): an ASCII-only text that receives multi-byte characters
    // (and one that loses them again) must navigate and report positions like any other tree of that text
    let mut edited: Vec<(String, String, usize, usize, String)> = vec![]; // (final text, base text, position, deleted, inserted)
    if let Some(s0) = srcs.first().cloned() {
      let base: String = s0.chars().filter(|c| c.is_ascii()).take(1500).collect();
      if let Some(p0) = base.find(|c: char| c.is_ascii_alphanumeric()) {
        let p1 = base[p0..].find(|c: char| !c.is_ascii_alphanumeric()).map(|i| p0 + i).unwrap_or(base.len());
        for ins in ["é日", "😀x", "ascii_only"] {
          let fin = format!("{}{}{}", &base[..p0], ins, &base[p1..]);
          edited.push((fin, base.clone(), p0, p1 - p0, ins.to_string()));
        }
        // and the way back: a text with wide characters edited into an ASCII-only one
        let wide = format!("{}é日{}", &base[..p0], &base[p1..]);
        edited.push((base.clone(), wide, p0, "é日".len(), base[p0..p1].to_string()));
      }
    }
    let n_plain = srcs.len();
    for (fin, ..) in &edited {
      srcs.push(fin.clone());
    }
    for (si, src) in srcs.iter().enumerate() {
      let mut sg = if si < n_plain { corpus::parse(lang, src) } else { corpus::parse(lang, &edited[si - n_plain].1) };
      if si >= n_plain {
        let e = &edited[si - n_plain];
        let ok = std::panic::catch_unwind(std::panic::AssertUnwindSafe(|| sg.edit(ast_grep_core::source::Edit { position: e.2, deleted_length: e.3, inserted_text: e.4.as_bytes().to_vec() }).is_ok())).unwrap_or(false);
        out.count("source:edited-document");
        if !ok || sg.source() != src.as_str() {
          out.checked();
          out.oracle_fail("", &format!("{lang}: AstGrep::edit fails or leaves another text than the splice"), json!({"stream": "c19-edited", "lang": lang.to_string(), "base": e.1, "position": e.2, "deleted": e.3, "inserted": e.4}));
          continue;
        }
      }
      let root = sg.root();
      let nodes = corpus::all_nodes(root.clone());
      if nodes.len() > 1500 {
        continue;
      }
      if std::env::var("VH_TRACE").is_ok() {
        eprintln!("c19 {lang} nodes={} bytes={} head={:?}", nodes.len(), src.len(), &src[..src.char_indices().nth(60).map(|x| x.0).unwrap_or(src.len())]);
      }
      let td = dump_tree_at(&root, 0);
      let id = |n: &N| Val::n(td.ids[&n.node_id()]);
      let ids = |v: Vec<N>| Val::L(v.iter().map(|n| id(n)).collect());
      let what = format!("c19 lang={lang} source={}", serde_json::to_string(&src[..src.char_indices().nth(400).map(|x| x.0).unwrap_or(src.len())]).unwrap());
      out.case(34, &vl![td.val.clone()], &vl![Val::b(true), Val::b(nodes.iter().all(|n| !n.range().is_empty()))], &format!("wf {what}"));
      let by_id: HashMap<usize, N> = nodes.iter().map(|n| (n.node_id(), n.clone())).collect();
      // ---- traversals from a sample of start nodes (always the root)
      let mut starts: Vec<N> = vec![root.clone()];
      for _ in 0..(if o.thorough { 12 } else { 5 }) {
        starts.push(rng.pick(&nodes).clone());
      }
      for st in &starts {
        let pre: Vec<N> = Pre::new(st).collect();
        let post: Vec<N> = Post::new(st).collect();
        let level: Vec<N> = Level::new(st).collect();
        out.case(30, &vl![td.val.clone(), id(st)], &vl![ids(pre.clone()), ids(post.clone()), ids(level.clone())], &format!("traversals from node {}..{} {what}", st.range().start, st.range().end));
        let (mut a, mut b) = (vec![], vec![]);
        pre_rec(st, &mut a);
        post_rec(st, &mut b);
        let c = level_rec(st);
        out.checked();
        let got = |v: &Vec<N>| v.iter().map(|n| n.node_id()).collect::<Vec<_>>();
        for (name, g, want) in [("pre", got(&pre), a), ("post", got(&post), b), ("level", got(&level), c)] {
          if g != want {
            out.oracle_fail("", &format!("{lang}: {name}-order traversal from the node at {}..{} ({}) differs from the recursive traversal of its subtree: {} vs {} nodes", st.range().start, st.range().end, st.kind(), g.len(), want.len()),
              json!({"stream": "c19", "lang": lang.to_string(), "source": src, "start": st.range().start, "order": name}));
          }
        }
        if pre.len() > 3 {
          out.nontrivial(&(lang.to_string(), src.len(), st.range().start, st.kind_id()));
        }
      }
      // ---- navigation and positions on a sample of nodes (all when small)
      let pick: Vec<N> = if nodes.len() <= 250 { nodes.clone() } else { (0..250).map(|_| rng.pick(&nodes).clone()).collect() };
      let mut expected = vec![];
      for n in &pick {
        let pos = |p: ast_grep_core::Position| vl![Val::n(p.line()), Val::n(p.column(n))];
        let sib_ok0 = n.parent().map(|p| p.children().all(|c| !c.range().is_empty())).unwrap_or(true);
        let sib = |v: Val| if sib_ok0 { v } else { Val::L(vec![]) };
        expected.push(vl![
          Val::opt(n.parent().map(|p| ids(vec![p]))),
          ids(n.children().collect()),
          ids(n.ancestors().collect()),
          sib(Val::opt(n.next().map(|p| ids(vec![p])))),
          sib(Val::opt(n.prev().map(|p| ids(vec![p])))),
          sib(ids(n.next_all().collect())),
          sib(ids(n.prev_all().collect())),
          pos(n.start_pos()),
          pos(n.end_pos())
        ]);
        // direct oracle
        out.checked();
        let mut fail = |what2: String| {
          out.oracle_fail("", &format!("{lang}: node {}..{} ({}): {what2}", n.range().start, n.range().end, n.kind()),
            json!({"stream": "c19-nav", "lang": lang.to_string(), "source": src, "start": n.range().start, "end": n.range().end}));
        };
        for c in n.children() {
          if c.parent().map(|p| p.node_id()) != Some(n.node_id()) {
            fail(format!("child {}..{} does not have it as parent", c.range().start, c.range().end));
          }
          if c.range().start < n.range().start || c.range().end > n.range().end {
            fail(format!("child {}..{} is not nested in it", c.range().start, c.range().end));
          }
        }
        // ancestors = chain of parents, nearest first
        let mut chain = vec![];
        let mut cur = n.parent();
        while let Some(p) = cur {
          chain.push(p.node_id());
          cur = p.parent();
        }
        if n.ancestors().map(|a| a.node_id()).collect::<Vec<_>>() != chain {
          fail("ancestors() is not the chain of parents".into());
        }
        // siblings: restricted to parents all of whose children have non-zero width (and to the root)
        let sib_ok = n.parent().map(|p| p.children().all(|c| !c.range().is_empty())).unwrap_or(true);
        if sib_ok {
          let mut it = vec![];
          let mut cur = n.next();
          while let Some(x) = cur {
            it.push(x.node_id());
            cur = x.next();
          }
          if n.next_all().map(|a| a.node_id()).collect::<Vec<_>>() != it {
            fail("next_all() is not the iterated next()".into());
          }
          let mut it = vec![];
          let mut cur = n.prev();
          while let Some(x) = cur {
            it.push(x.node_id());
            cur = x.prev();
          }
          if n.prev_all().map(|a| a.node_id()).collect::<Vec<_>>() != it {
            fail("prev_all() is not the iterated prev()".into());
          }
        }
        // positions from the bytes
        for (p, off) in [(n.start_pos(), n.range().start), (n.end_pos(), n.range().end)] {
          let pre = &src.as_bytes()[..off];
          let line = pre.iter().filter(|b| **b == b'\n').count();
          let ls = pre.iter().rposition(|b| *b == b'\n').map(|i| i + 1).unwrap_or(0);
          let col = std::str::from_utf8(&pre[ls..]).map(|s| s.chars().count()).unwrap_or(usize::MAX);
          if p.line() != line || p.column(n) != col {
            fail(format!("position of offset {off} is ({}, {}), the bytes give ({line}, {col})", p.line(), p.column(n)));
          }
        }
        let _ = &by_id;
      }
      out.case(31, &vl![Val::str_bytes(src), td.val.clone(), Val::L(pick.iter().map(|n| id(n)).collect())], &Val::L(expected), &format!("navigation {what}"));
      if nodes.iter().any(|n| n.range().is_empty()) {
        out.count("tree:has-zero-width-node");
        wf_bad += 1;
      } else {
        out.count("tree:all-nonzero-width");
      }
      out.count(if corpus::has_error(&root) { "tree:with-errors" } else { "tree:error-free" });
      if !sampled && nodes.len() > 10 {
        sampled = true;
        out.sample(json!({"lang": lang.to_string(), "nodes": nodes.len(), "source_head": &src[..src.char_indices().nth(80).map(|x| x.0).unwrap_or(src.len())]}));
      }
    }
  }
  out.set("trees_with_zero_width_nodes", json!(wf_bad));
  out.finish("corpus sources of all 23 languages plus token-mutated (error-containing), CRLF, lone-CR, multi-byte and empty variants: Pre/Post/Level from the root and random start nodes, \
              parent/children/ancestors/next/prev/next_all/prev_all and line/character-column of both ends on every node (<=250 per tree) — tie against the model on the dumped tree, \
              direct oracle against recursive baselines and the bytes (sibling clause only under parents without zero-width children). non-trivial = a traversal of more than 3 nodes");
}
