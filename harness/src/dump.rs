//! Dumps of real trees / patterns / environments in the wire format of the Coq model (Tree/Tree.v).
use crate::corpus::N;
use crate::val::Val;
use crate::vl;
use ast_grep_core::matcher::PatternNode;
use ast_grep_core::meta_var::{MetaVarEnv, MetaVariable};
use ast_grep_core::{MatchStrictness, Pattern};
use ast_grep_language::SupportLang;
use std::collections::HashMap;

pub struct TreeDump {
  pub val: Val,
  /// tree-sitter node id -> pre-order index used as id in the dump
  pub ids: HashMap<usize, usize>,
  pub size: usize,
  pub base: usize,
}

/// dump the subtree of `node`; byte offsets are rebased to the start of `node`
pub fn dump_tree(node: &N) -> TreeDump {
  dump_tree_at(node, node.get_ts_node().start_byte() as usize)
}

/// dump with byte offsets relative to `base` (0 = absolute offsets of the document)
pub fn dump_tree_at(node: &N, base: usize) -> TreeDump {
  let ts = node.get_ts_node();
  let mut ids = HashMap::new();
  let mut counter = 0usize;
  let mut cursor = ts.walk();
  fn go(c: &mut tree_sitter::TreeCursor, ids: &mut HashMap<usize, usize>, counter: &mut usize, base: usize, top: bool) -> Val {
    let n = c.node();
    let id = *counter;
    *counter += 1;
    ids.insert(n.id(), id);
    let fld = if top { 0 } else { c.field_id().unwrap_or(0) as usize };
    let mut kids = vec![];
    if c.goto_first_child() {
      loop {
        kids.push(go(c, ids, counter, base, false));
        if !c.goto_next_sibling() {
          break;
        }
      }
      c.goto_parent();
    }
    vl![
      Val::n(id),
      Val::n(n.kind_id() as usize),
      Val::b(n.is_named()),
      Val::b(n.kind().contains("comment")),
      Val::b(n.is_missing()),
      Val::n(fld),
      Val::n(n.start_byte() as usize - base),
      Val::n(n.end_byte() as usize - base),
      Val::L(kids)
    ]
  }
  let val = go(&mut cursor, &mut ids, &mut counter, base, true);
  TreeDump { val, ids, size: counter, base }
}

pub fn dump_metavar(m: &MetaVariable) -> Val {
  match m {
    MetaVariable::Capture(n, b) => vl![Val::Z(0), Val::chars(n), Val::b(*b)],
    MetaVariable::Dropped(b) => vl![Val::Z(1), Val::b(*b)],
    MetaVariable::Multiple => vl![Val::Z(2)],
    MetaVariable::MultiCapture(n) => vl![Val::Z(3), Val::chars(n)],
  }
}

pub fn dump_pnode(p: &PatternNode) -> Val {
  match p {
    PatternNode::MetaVar { meta_var } => vl![Val::Z(0), dump_metavar(meta_var)],
    PatternNode::Terminal { text, is_named, kind_id } => {
      vl![Val::Z(1), Val::str_bytes(text), Val::b(*is_named), Val::n(*kind_id as usize)]
    }
    PatternNode::Internal { kind_id, children } => {
      vl![Val::Z(2), Val::n(*kind_id as usize), Val::L(children.iter().map(dump_pnode).collect())]
    }
  }
}

pub fn pnode_size(p: &PatternNode) -> usize {
  match p {
    PatternNode::Internal { children, .. } => 1 + children.iter().map(pnode_size).sum::<usize>(),
    _ => 1,
  }
}

pub fn strict_id(s: &MatchStrictness) -> usize {
  match s {
    MatchStrictness::Cst => 0,
    MatchStrictness::Smart => 1,
    MatchStrictness::Ast => 2,
    MatchStrictness::Relaxed => 3,
    MatchStrictness::Signature => 4,
  }
}
pub fn strict_of(i: usize) -> MatchStrictness {
  match i {
    0 => MatchStrictness::Cst,
    1 => MatchStrictness::Smart,
    2 => MatchStrictness::Ast,
    3 => MatchStrictness::Relaxed,
    _ => MatchStrictness::Signature,
  }
}
pub const STRICT_NAMES: [&str; 5] = ["cst", "smart", "ast", "relaxed", "signature"];

/// (pnode root_kind strictness); root_kind is private: recovered through potential_kinds() for a
/// meta-variable root (the only case where it is consulted)
pub fn dump_pattern(p: &Pattern<SupportLang>) -> Val {
  use ast_grep_core::Matcher;
  let root_kind = match &p.node {
    PatternNode::MetaVar { .. } => p.potential_kinds().and_then(|k| k.iter().next()),
    _ => None,
  };
  vl![dump_pnode(&p.node), Val::opt(root_kind.map(Val::n)), Val::n(strict_id(&p.strictness))]
}

/// canonical environment dump: sorted by key; nodes as (id start end) with the dump's ids/rebased offsets
pub fn dump_env(env: &MetaVarEnv<crate::corpus::Doc>, td: &TreeDump) -> Val {
  let mut singles: Vec<(String, Val)> = vec![];
  let mut multis: Vec<(String, Val)> = vec![];
  let mut trans: Vec<(String, Val)> = vec![];
  let node_val = |n: &N| -> Val {
    let id = td.ids.get(&n.node_id()).copied().map(|x| x as i128).unwrap_or(-1);
    let r = n.range();
    vl![Val::Z(id), Val::Z(r.start as i128 - td.base as i128), Val::Z(r.end as i128 - td.base as i128)]
  };
  for mv in env.get_matched_variables() {
    match mv {
      MetaVariable::Capture(name, _) => {
        if let Some(n) = env.get_match(&name) {
          singles.push((name.clone(), vl![Val::str_bytes(&name), node_val(n)]));
        } else if let Some(b) = env.get_transformed(&name) {
          trans.push((name.clone(), vl![Val::str_bytes(&name), Val::bytes(b)]));
        }
      }
      MetaVariable::MultiCapture(name) => {
        let ns = env.get_multiple_matches(&name);
        multis.push((name.clone(), vl![Val::str_bytes(&name), Val::L(ns.iter().map(node_val).collect())]));
      }
      _ => {}
    }
  }
  singles.sort_by(|a, b| a.0.as_bytes().cmp(b.0.as_bytes()));
  singles.dedup_by(|a, b| a.0 == b.0);
  multis.sort_by(|a, b| a.0.as_bytes().cmp(b.0.as_bytes()));
  trans.sort_by(|a, b| a.0.as_bytes().cmp(b.0.as_bytes()));
  vl![
    Val::L(singles.into_iter().map(|x| x.1).collect()),
    Val::L(multis.into_iter().map(|x| x.1).collect()),
    Val::L(trans.into_iter().map(|x| x.1).collect())
  ]
}
