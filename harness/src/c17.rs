//! C17 — files are processed independently, whatever the thread count or schedule.
//! The findings for a tree must equal the union of the findings of each file scanned alone, for every
//! `-j` value and repeated runs; unreadable / empty / non-UTF-8 / oversized files must not change the
//! findings of other files nor the well-formedness of the output.
use crate::cli::{fresh_dir, json_lines, rec_key, sg};
use crate::corpus;
use crate::out::Out;
use crate::rng::Rng;
use crate::rulegen::harvest;
use crate::Opts;
use ast_grep_language::SupportLang;
use serde_json::json;
use std::collections::BTreeMap;

type Key = (String, String, usize, usize);

pub fn run(o: &Opts) {
  let mut out = Out::new(&o.out);
  let mut rng = Rng::new(o.seed ^ 0xc17);
  let trees = if o.thorough { 10 } else { 4 };
  let jobs: Vec<usize> = if o.thorough { (1..=16).collect() } else { vec![1, 2, 4, 16] };
  let repeats = if o.thorough { 4 } else { 2 };
  let mut sampled = false;
  let langs = [SupportLang::TypeScript, SupportLang::JavaScript, SupportLang::Python, SupportLang::Rust, SupportLang::Go, SupportLang::Java];
  for t in 0..trees {
    let lang = langs[(o.seed as usize + t) % langs.len()];
    let ext = corpus::lang_ext(lang);
    let lname = lang.to_string();
    let dir = fresh_dir(&o.out, &format!("tree_{t}"));
    let srcs = corpus::sources(lang, &mut rng, 6, 500);
    if srcs.len() < 2 {
      continue;
    }
    // 12-20 files in nested directories: every source several times under different names
    let mut files: Vec<(String, Vec<u8>)> = vec![];
    let nfiles = 12 + rng.below(9);
    for i in 0..nfiles {
      let rel = match i % 4 { 0 => format!("f{i}.{ext}"), 1 => format!("a/f{i}.{ext}"), 2 => format!("a/b/f{i}.{ext}"), _ => format!("c/d/e/f{i}.{ext}") };
      files.push((rel, srcs[i % srcs.len()].as_bytes().to_vec()));
    }
    // faults: empty, not UTF-8, oversized (> 3 MB and > 200k lines), a file that contains a match but is invalid UTF-8
    let nfault = if t % 3 == 0 { 0 } else { 1 + rng.below(3) };
    let mut faulty = vec![];
    for k in 0..nfault {
      let i = rng.below(files.len());
      match (k + rng.below(4)) % 4 {
        0 => files[i].1 = vec![],
        1 => { let mut b = files[i].1.clone(); b.insert(b.len() / 2, 0xff); files[i].1 = b; }
        2 => { let mut b = b"\xc3\x28 invalid start\n".to_vec(); b.extend_from_slice(&files[i].1); files[i].1 = b; }
        _ => { let line = "// filler line to make the file too large to be scanned, repeated many times\n"; let mut b = line.repeat(210_000).into_bytes(); b.extend_from_slice(&files[i].1); files[i].1 = b; }
      }
      faulty.push(files[i].0.clone());
    }
    // whatever the random faults were: two more files that are not UTF-8, so that in every faulty tree some
    // walker thread reads valid files AFTER an unreadable one (the directory order is the file system's)
    if nfault > 0 {
      for k in 0..2 {
        let i = rng.below(files.len());
        if faulty.contains(&files[i].0) {
          continue;
        }
        if k == 0 {
          let mut b = files[i].1.clone();
          b.insert(b.len() / 2, 0xff);
          files[i].1 = b;
        } else {
          let mut b = b"\xc3\x28 invalid start\n".to_vec();
          b.extend_from_slice(&files[i].1);
          files[i].1 = b;
        }
        faulty.push(files[i].0.clone());
      }
    }
    // a large but valid file: more than 3 MB in few lines is NOT skipped (only size AND line count together are)
    if t % 2 == 1 {
      let i = rng.below(files.len());
      if !faulty.contains(&files[i].0) {
        let filler = "x".repeat(3_100_000);
        let mut b = if lang == SupportLang::Python { format!("# {filler}\n") } else { format!("/* {filler} */\n") }.into_bytes();
        b.extend_from_slice(&files[i].1);
        files[i].1 = b;
        out.count("tree:with-large-valid-file");
      }
    }
    for (rel, bytes) in &files {
      let p = dir.join(rel);
      std::fs::create_dir_all(p.parent().unwrap()).unwrap();
      std::fs::write(&p, bytes).unwrap();
    }
    // a pattern that matches in several files
    let g = corpus::parse(lang, &srcs[0]);
    let nodes = corpus::all_nodes(g.root());
    let ing = harvest(lang, &nodes, &mut rng);
    use ast_grep_core::matcher::MatcherExt;
    let Some((ptext, _)) = ing.patterns.iter().find(|p| p.1.is_none() && !p.0.starts_with('-') && !p.0.contains('\n')
      && ast_grep_core::Pattern::try_new(&p.0, lang).map(|pt| nodes.iter().any(|n| pt.match_node(n.clone()).is_some())).unwrap_or(false)).cloned() else { continue };
    // per file, alone
    let mut union: Vec<Key> = vec![];
    let mut per_file: BTreeMap<String, usize> = BTreeMap::new();
    let mut alone_ok = true;
    for (rel, _) in &files {
      let r = sg(&dir, &["run", "-p", &ptext, "-l", &lname, "--json=stream", rel], None, 60);
      if r.timed_out || !matches!(r.code, Some(0) | Some(1)) {
        out.checked();
        out.oracle_fail("", &format!("scanning {rel} alone: exit {:?} timed_out={} (pattern {ptext:?}, faulty files {faulty:?})", r.code, r.timed_out), json!({"stream": "c17", "file": rel}));
        alone_ok = false;
        break;
      }
      let recs = json_lines(&r.stdout).unwrap_or_default();
      per_file.insert(rel.clone(), recs.len());
      union.extend(recs.iter().map(rec_key));
    }
    if !alone_ok {
      continue;
    }
    union.sort();
    out.count(if faulty.is_empty() { "tree:no-fault" } else { "tree:with-invalid-files" });
    for j in &jobs {
      for rep in 0..repeats {
        let js = j.to_string();
        let style = ["stream", "pretty", "compact"][(j + rep) % 3];
        let jarg = format!("--json={style}");
        let r = sg(&dir, &["run", "-p", &ptext, "-l", &lname, &jarg, "-j", &js, "."], None, 120);
        out.checked();
        let what = format!("sg run -p {ptext:?} -l {lang} {jarg} -j {j} on a tree of {} files ({} invalid: {faulty:?}), repeat {rep}", files.len(), faulty.len());
        if r.timed_out || !matches!(r.code, Some(0) | Some(1)) {
          out.oracle_fail("", &format!("{what}: exit {:?} timed_out={} stderr={}", r.code, r.timed_out, r.stderr.chars().take(300).collect::<String>()), json!({"stream": "c17", "dir": dir.to_string_lossy()}));
          continue;
        }
        let recs = if style == "stream" { json_lines(&r.stdout) } else { serde_json::from_str::<serde_json::Value>(&r.stdout).map_err(|e| e.to_string()).and_then(|v| v.as_array().cloned().ok_or("not an array".into())) };
        let Ok(recs) = recs else {
          out.oracle_fail("", &format!("{what}: the output is not well-formed JSON"), json!({"stream": "c17-framing", "stdout": r.stdout.chars().take(300).collect::<String>()}));
          continue;
        };
        let mut got: Vec<Key> = recs.iter().map(rec_key).collect();
        got.sort();
        if got != union {
          // which file differs?
          let mut cnt: BTreeMap<String, usize> = BTreeMap::new();
          for g in &got {
            *cnt.entry(g.0.clone()).or_default() += 1;
          }
          let bad: Vec<(&String, usize, usize)> = per_file.iter().filter(|(f, n)| cnt.get(*f).copied().unwrap_or(0) != **n).map(|(f, n)| (f, *n, cnt.get(f).copied().unwrap_or(0))).collect();
          out.oracle_fail("", &format!("{what}: {} records, the union of the files scanned alone has {}; files that differ (file, alone, in the tree): {:?}", got.len(), union.len(), bad.iter().take(5).collect::<Vec<_>>()),
            json!({"stream": "c17-union", "pattern": ptext, "faulty": faulty}));
        }
      }
    }
    if !union.is_empty() {
      out.nontrivial(&(lname.clone(), ptext.clone(), files.len(), faulty.len()));
      if !sampled {
        sampled = true;
        out.sample(json!({"lang": lname, "pattern": ptext, "files": files.len(), "invalid_files": faulty, "records": union.len(), "jobs": jobs}));
      }
    }
  }
  // ---- documents that host other languages: HTML pages with <script> / <style>, mixed with plain files, searched
  //      with a JavaScript and with a CSS pattern: per-thread parser state must not leak from one file to the next
  for (pt, l) in [("foo($A)", "js"), ("color: $C", "css")] {
    let dir = fresh_dir(&o.out, &format!("html_{l}"));
    let mut files: Vec<String> = vec![];
    for i in 0..8 {
      let rel = match i % 3 { 0 => format!("page{i}.html"), 1 => format!("a/page{i}.html"), _ => format!("a/b/page{i}.html") };
      let body = format!("<html><head><style>p{i} {{ color: red; margin: {i}px; }}</style></head>\n<body><p>page {i} é日</p>\n<script>foo({i}); bar(foo({i}{i}));</script>\n<script>let v{i} = foo('x');</script></body></html>\n");
      let p = dir.join(&rel);
      std::fs::create_dir_all(p.parent().unwrap()).unwrap();
      std::fs::write(&p, body).unwrap();
      files.push(rel);
    }
    for (rel, body) in [("z.js", "foo(100);\n"), ("a/y.css", "q { color: blue; }\n"), ("a/b/x.ts", "foo(200)\n")] {
      std::fs::write(dir.join(rel), body).unwrap();
      files.push(rel.to_string());
    }
    let mut union: Vec<Key> = vec![];
    for rel in &files {
      let r = sg(&dir, &["run", "-p", pt, "-l", l, "--json=stream", rel], None, 60);
      union.extend(json_lines(&r.stdout).unwrap_or_default().iter().map(rec_key));
    }
    union.sort();
    out.count("tree:html-with-injections");
    for j in &jobs {
      let js = j.to_string();
      let r = sg(&dir, &["run", "-p", pt, "-l", l, "--json=stream", "-j", &js, "."], None, 120);
      out.checked();
      let mut got: Vec<Key> = json_lines(&r.stdout).unwrap_or_default().iter().map(rec_key).collect();
      got.sort();
      if r.timed_out || got != union {
        out.oracle_fail("", &format!("sg run -p {pt:?} -l {l} -j {j} on 8 HTML pages with embedded script/style plus plain files: {} records, the union of the files scanned alone has {}", got.len(), union.len()),
          json!({"stream": "c17-html", "dir": dir.to_string_lossy()}));
      }
    }
    if !union.is_empty() {
      out.nontrivial(&(l.to_string(), pt.to_string(), files.len()));
    }
  }
  // ---- `sg run -p` WITHOUT -l (the language of each file is inferred, the pattern is built per language) on a tree
  //      mixing many languages, with patterns that build in every language, in some only (a selector kind that only
  //      some grammars have), or in none: a file's findings must not depend on which files were met before it
  {
    let dir = fresh_dir(&o.out, "mixed_langs");
    let bodies: [(&str, &str); 16] = [
      ("a.js", "console.log(1)\nfoo(2)\n"), ("b/a.ts", "console.log(3)\nfoo(4)\n"), ("b/c.tsx", "console.log(5)\nfoo(6)\n"), ("p.py", "console.log(7)\nfoo(8)\n"),
      ("b/r.rb", "console.log(9)\nfoo(10)\n"), ("l.lua", "console.log(11)\nfoo(12)\n"), ("b/d/m.rs", "fn main() { console.log(13); foo(14); }\n"), ("c.c", "void f() { console.log(15); foo(16); }\n"),
      ("b/g.go", "package main\nfunc f() { console.log(17); foo(18) }\n"), ("y.yml", "a: console.log(19)\nb: foo(20)\n"), ("b/j.json", "{\"a\": 1}\n"), ("h.html", "<p>x</p>\n<script>console.log(21); foo(22)</script>\n"),
      ("b/d/k.kt", "fun f() { console.log(23); foo(24) }\n"), ("s.swift", "console.log(25)\nfoo(26)\n"), ("b/z.java", "class A { void f() { console.log(27); foo(28); } }\n"), ("b/d/x.cpp", "void f() { console.log(29); foo(30); }\n"),
    ];
    for (rel, body) in bodies {
      let p = dir.join(rel);
      std::fs::create_dir_all(p.parent().unwrap()).unwrap();
      std::fs::write(&p, body).unwrap();
    }
    let pats: [(&str, Option<&str>); 5] = [("foo($A)", None), ("console.log($A)", Some("call_expression")), ("console.log($A)", Some("call")), ("foo($A)", Some("function_call")), ("class A { $$$B }", None)];
    out.count("tree:mixed-languages-inferred");
    for (pt, sel) in pats {
      let mut base: Vec<&str> = vec!["run", "-p", pt];
      if let Some(s) = sel {
        base.push("--selector");
        base.push(s);
      }
      base.push("--json=stream");
      let mut union: Vec<Key> = vec![];
      for (rel, _) in bodies {
        let mut a = base.clone();
        a.push(rel);
        let r = sg(&dir, &a, None, 60);
        union.extend(json_lines(&r.stdout).unwrap_or_default().iter().map(rec_key));
      }
      union.sort();
      for j in &jobs {
        for rep in 0..2 {
          let js = j.to_string();
          let mut a = base.clone();
          a.extend(["-j", &js, "."]);
          let r = sg(&dir, &a, None, 120);
          out.checked();
          let mut got: Vec<Key> = json_lines(&r.stdout).unwrap_or_default().iter().map(rec_key).collect();
          got.sort();
          if r.timed_out || got != union {
            out.oracle_fail("", &format!("sg run -p {pt:?} (selector {sel:?}, language inferred per file) -j {j} (repeat {rep}) on a tree of 16 files in 16 languages: {} records, the union of the files scanned alone has {}", got.len(), union.len()),
              json!({"stream": "c17-mixed-languages", "dir": dir.to_string_lossy(), "pattern": pt, "selector": sel}));
          }
        }
      }
      if !union.is_empty() {
        out.nontrivial(&("mixed-languages", pt, sel, union.len()));
      }
    }
  }
  // ---- `sg scan` with rules scoped to different paths (same number of rules per file, different rules): what a
  //      worker computed for one file must not be reused for a file to which other rules apply
  {
    let dir = fresh_dir(&o.out, "scoped_rules");
    std::fs::create_dir_all(dir.join("rules")).unwrap();
    std::fs::write(dir.join("sgconfig.yml"), "ruleDirs: [rules]\n").unwrap();
    for (id, pat, glob) in [("no-log", "console.log($A)", "src/**"), ("no-var", "var $A = $B", "test/**"), ("no-new", "new $C($$$A)", "lib/**"), ("no-num", "foo(1)", "src/**"), ("no-str", "bar('x')", "test/**"), ("no-tpl", "`t`", "lib/**")] {
      std::fs::write(dir.join(format!("rules/{id}.yml")), format!("id: {id}\nlanguage: TypeScript\nseverity: warning\nmessage: m\nrule:\n  pattern: {}\nfiles: ['{glob}']\n", serde_json::to_string(pat).unwrap())).unwrap();
    }
    // one rule without globs (TypeScript) next to languages that ONLY path-scoped rules cover (JSON, YAML): the walker
    // must still visit their files
    std::fs::write(dir.join("rules/any-debugger.yml"), "id: any-debugger\nlanguage: TypeScript\nseverity: warning\nmessage: m\nrule:\n  pattern: debugger\n").unwrap();
    std::fs::write(dir.join("rules/json-name.yml"), "id: json-name\nlanguage: json\nseverity: warning\nmessage: m\nrule:\n  kind: pair\n  has:\n    field: key\n    regex: name\nfiles: ['cfg/**', 'package.json']\n").unwrap();
    std::fs::write(dir.join("rules/yaml-image.yml"), "id: yaml-image\nlanguage: yaml\nseverity: error\nmessage: m\nrule:\n  kind: block_mapping_pair\n  regex: '^image'\nfiles: ['deploy/**']\n").unwrap();
    let body = "console.log(1)\nvar a = 2\nnew Foo(3)\nfoo(1)\nbar('x')\nlet t = `t`\ndebugger\n";
    let mut files = vec![];
    for (rel, text) in [("cfg/a.json", "{\"name\": \"a\", \"v\": 1}\n"), ("package.json", "{\"name\": \"pkg\"}\n"), ("other/b.json", "{\"name\": \"no rule here\"}\n"), ("deploy/prod/web.yml", "image: web:1\nreplicas: 2\n"), ("deploy/web.yml", "image: web:2\n"), ("other/c.yml", "image: none\n")] {
      let p = dir.join(rel);
      std::fs::create_dir_all(p.parent().unwrap()).unwrap();
      std::fs::write(&p, text).unwrap();
      files.push(rel.to_string());
    }
    for d in ["src", "test", "lib", "other"] {
      for i in 0..4 {
        let rel = format!("{d}/f{i}.ts");
        std::fs::create_dir_all(dir.join(d)).unwrap();
        std::fs::write(dir.join(&rel), body).unwrap();
        files.push(rel);
      }
    }
    let mut union: Vec<Key> = vec![];
    for rel in &files {
      let r = sg(&dir, &["scan", "--json=stream", rel], None, 60);
      union.extend(json_lines(&r.stdout).unwrap_or_default().iter().map(rec_key));
    }
    union.sort();
    out.count("tree:path-scoped-rules");
    for j in &jobs {
      for rep in 0..2 {
        let js = j.to_string();
        let r = sg(&dir, &["scan", "--json=stream", "-j", &js, "."], None, 120);
        out.checked();
        let mut got: Vec<Key> = json_lines(&r.stdout).unwrap_or_default().iter().map(rec_key).collect();
        got.sort();
        if r.timed_out || got != union {
          out.oracle_fail("", &format!("sg scan -j {j} (repeat {rep}) on a project whose rules are scoped to src/**, test/** and lib/**: {} records, the union of the files scanned alone has {}", got.len(), union.len()),
            json!({"stream": "c17-scoped-rules", "dir": dir.to_string_lossy()}));
        }
      }
    }
    if !union.is_empty() {
      out.nontrivial(&("scoped-rules", union.len()));
    }
  }
  out.finish("directory trees of 12-20 files in nested directories, 0-5 of them made invalid (at least two not UTF-8 in every faulty tree) (empty, invalid UTF-8 in the middle / at the start, more than 3 MB and 200k lines), given as a single root: `sg run -p .. -j N` \
              for N in {1,2,4,16} (1..16 thorough) x repeated runs x the three JSON styles: the output must be well-formed and the sorted records must equal the union of the records of each file scanned alone (each file exactly once). \
              Plus a project scanned with rules scoped to different paths, and two trees of HTML pages hosting <script>/<style> mixed with plain files, searched with a JavaScript and a CSS pattern. As root in this sandbox a file cannot be made unreadable by mode bits: the unreadable case is covered by invalid content only. non-trivial = the pattern has matches");
}
