//! Random rule objects: YAML for the implementation, wire value (serialised form) for the model.
use crate::corpus::N;
use crate::dump::{dump_pattern, strict_of, STRICT_NAMES};
use crate::rng::Rng;
use crate::val::Val;
use crate::vl;
use ast_grep_core::{Language, Pattern};
use ast_grep_language::SupportLang;
use std::collections::HashMap;

#[derive(Clone, Debug)]
pub enum Stop {
  Neighbor,
  End,
  Rule(RObj),
}

#[derive(Clone, Debug)]
pub struct Rel {
  pub rule: RObj,
  pub stop: Stop,
  pub field: Option<String>,
}

#[derive(Clone, Debug)]
pub enum NthPos {
  Num(usize),
  Str(String),
}

#[derive(Clone, Debug)]
pub enum RKey {
  Pattern { text: String, selector: Option<String>, strictness: Option<usize> },
  Kind(String),
  Regex(String),
  Nth { pos: NthPos, reverse: bool, of: Option<Box<RObj>>, simple: bool },
  Range(usize, usize, usize, usize),
  Inside(Box<Rel>),
  Has(Box<Rel>),
  Precedes(Box<Rel>),
  Follows(Box<Rel>),
  All(Vec<RObj>),
  Any(Vec<RObj>),
  Not(Box<RObj>),
  Matches(String),
}

#[derive(Clone, Debug, Default)]
pub struct RObj {
  pub keys: Vec<RKey>,
}

fn key_id(k: &RKey) -> usize {
  match k {
    RKey::Pattern { .. } => 0,
    RKey::Kind(_) => 1,
    RKey::Regex(_) => 2,
    RKey::Nth { .. } => 3,
    RKey::Range(..) => 4,
    RKey::Inside(_) => 5,
    RKey::Has(_) => 6,
    RKey::Precedes(_) => 7,
    RKey::Follows(_) => 8,
    RKey::All(_) => 9,
    RKey::Any(_) => 10,
    RKey::Not(_) => 11,
    RKey::Matches(_) => 12,
  }
}

fn q(s: &str) -> String {
  serde_json::to_string(s).unwrap()
}

impl RObj {
  pub fn one(k: RKey) -> RObj {
    RObj { keys: vec![k] }
  }
  /// block-style YAML of the rule object, every line indented by `ind` blanks
  pub fn yaml(&self, ind: usize) -> String {
    let pad = " ".repeat(ind);
    let mut s = String::new();
    for k in &self.keys {
      match k {
        RKey::Pattern { text, selector, strictness } => {
          if selector.is_none() && strictness.is_none() {
            s.push_str(&format!("{pad}pattern: {}\n", q(text)));
          } else {
            s.push_str(&format!("{pad}pattern:\n{pad}  context: {}\n", q(text)));
            if let Some(sel) = selector {
              s.push_str(&format!("{pad}  selector: {sel}\n"));
            }
            if let Some(st) = strictness {
              s.push_str(&format!("{pad}  strictness: {}\n", STRICT_NAMES[*st]));
            }
          }
        }
        RKey::Kind(k) => s.push_str(&format!("{pad}kind: {k}\n")),
        RKey::Regex(r) => s.push_str(&format!("{pad}regex: {}\n", q(r))),
        RKey::Nth { pos, reverse, of, simple } => {
          let p = match pos {
            NthPos::Num(n) => n.to_string(),
            NthPos::Str(x) => q(x),
          };
          if *simple && !*reverse && of.is_none() {
            s.push_str(&format!("{pad}nthChild: {p}\n"));
          } else {
            s.push_str(&format!("{pad}nthChild:\n{pad}  position: {p}\n{pad}  reverse: {reverse}\n"));
            if let Some(o) = of {
              s.push_str(&format!("{pad}  ofRule:\n{}", o.yaml(ind + 4)));
            }
          }
        }
        RKey::Range(sl, sc, el, ec) => s.push_str(&format!(
          "{pad}range:\n{pad}  start: {{line: {sl}, column: {sc}}}\n{pad}  end: {{line: {el}, column: {ec}}}\n"
        )),
        RKey::Inside(r) | RKey::Has(r) | RKey::Precedes(r) | RKey::Follows(r) => {
          let name = match k {
            RKey::Inside(_) => "inside",
            RKey::Has(_) => "has",
            RKey::Precedes(_) => "precedes",
            _ => "follows",
          };
          s.push_str(&format!("{pad}{name}:\n{}", r.rule.yaml(ind + 2)));
          match &r.stop {
            Stop::Neighbor => {}
            Stop::End => s.push_str(&format!("{pad}  stopBy: end\n")),
            Stop::Rule(sr) => s.push_str(&format!("{pad}  stopBy:\n{}", sr.yaml(ind + 4))),
          }
          if let Some(f) = &r.field {
            s.push_str(&format!("{pad}  field: {f}\n"));
          }
        }
        RKey::All(rs) | RKey::Any(rs) => {
          let name = if matches!(k, RKey::All(_)) { "all" } else { "any" };
          if rs.is_empty() {
            s.push_str(&format!("{pad}{name}: []\n"));
          } else {
            s.push_str(&format!("{pad}{name}:\n"));
            for r in rs {
              let body = r.yaml(ind + 4);
              // turn the first line's indentation into "  - "
              let mut lines = body.lines();
              if let Some(first) = lines.next() {
                s.push_str(&format!("{pad}  - {}\n", first.trim_start()));
              }
              for l in lines {
                s.push_str(l);
                s.push('\n');
              }
            }
          }
        }
        RKey::Not(r) => s.push_str(&format!("{pad}not:\n{}", r.yaml(ind + 2))),
        RKey::Matches(id) => s.push_str(&format!("{pad}matches: {id}\n")),
      }
    }
    s
  }

  pub fn has_key(&self, f: &dyn Fn(&RKey) -> bool) -> bool {
    self.keys.iter().any(|k| {
      f(k)
        || match k {
          RKey::Nth { of: Some(o), .. } => o.has_key(f),
          RKey::Inside(r) | RKey::Has(r) | RKey::Precedes(r) | RKey::Follows(r) => {
            r.rule.has_key(f) || matches!(&r.stop, Stop::Rule(sr) if sr.has_key(f))
          }
          RKey::All(rs) | RKey::Any(rs) => rs.iter().any(|r| r.has_key(f)),
          RKey::Not(r) => r.has_key(f),
          _ => false,
        }
    })
  }

  /// all pattern texts, for the variable-disjointness test
  pub fn patterns(&self, out: &mut Vec<String>) {
    for k in &self.keys {
      match k {
        RKey::Pattern { text, .. } => out.push(text.clone()),
        RKey::Nth { of: Some(o), .. } => o.patterns(out),
        RKey::Inside(r) | RKey::Has(r) | RKey::Precedes(r) | RKey::Follows(r) => {
          r.rule.patterns(out);
          if let Stop::Rule(sr) = &r.stop {
            sr.patterns(out);
          }
        }
        RKey::All(rs) | RKey::Any(rs) => rs.iter().for_each(|r| r.patterns(out)),
        RKey::Not(r) => r.patterns(out),
        _ => {}
      }
    }
  }
}

pub fn vars_of(text: &str) -> Vec<String> {
  let mut v = vec![];
  let b: Vec<char> = text.chars().collect();
  let mut i = 0;
  while i < b.len() {
    if b[i] == '$' {
      let mut j = i;
      while j < b.len() && b[j] == '$' {
        j += 1;
      }
      let st = j;
      while j < b.len() && (b[j].is_ascii_uppercase() || b[j] == '_' || b[j].is_ascii_digit()) {
        j += 1;
      }
      if j > st && b[st] != '_' {
        v.push(b[st..j].iter().collect());
      }
      i = j.max(i + 1);
    } else {
      i += 1;
    }
  }
  v
}

/// no variable name occurs in two different patterns, nor twice in one pattern
pub fn var_disjoint(objs: &[&RObj]) -> bool {
  let mut pats = vec![];
  for o in objs {
    o.patterns(&mut pats);
  }
  let mut seen: HashMap<String, usize> = HashMap::new();
  for p in &pats {
    for v in vars_of(p) {
      *seen.entry(v).or_insert(0) += 1;
    }
  }
  seen.values().all(|c| *c == 1)
}

/// The dump records ONE field per child (the tree cursor's); tree-sitter's `child_by_field_id` also finds a
/// child through a second field name it inherits from a hidden rule.  A rule whose `field` is affected on the
/// document at hand cannot be represented in the wire format: the case is skipped (and counted).
pub fn field_view_consistent(nodes: &[N], fid: u16) -> bool {
  for n in nodes {
    let ts = n.get_ts_node();
    if ts.child_count() == 0 {
      continue;
    }
    let mut c = ts.walk();
    let mut first: Option<usize> = None;
    if c.goto_first_child() {
      loop {
        if c.field_id() == Some(fid) {
          first = Some(c.node().id());
          break;
        }
        if !c.goto_next_sibling() {
          break;
        }
      }
    }
    let real = ts.child_by_field_id(fid).map(|x| x.id());
    if first != real {
      return false;
    }
  }
  true
}

/// at most one child of any node carries the field (the restriction under which C05's reference semantics speaks)
pub fn field_unique(nodes: &[N], fid: u16) -> bool {
  for n in nodes {
    let ts = n.get_ts_node();
    let mut c = ts.walk();
    let mut count = 0;
    if c.goto_first_child() {
      loop {
        if c.field_id() == Some(fid) {
          count += 1;
        }
        if !c.goto_next_sibling() {
          break;
        }
      }
    }
    if count > 1 {
      return false;
    }
  }
  true
}

impl RObj {
  /// names of the fields used anywhere in the rule object
  pub fn fields(&self, out: &mut Vec<String>) {
    for k in &self.keys {
      match k {
        RKey::Inside(r) | RKey::Has(r) | RKey::Precedes(r) | RKey::Follows(r) => {
          if let Some(f) = &r.field {
            out.push(f.clone());
          }
          r.rule.fields(out);
          if let Stop::Rule(sr) = &r.stop {
            sr.fields(out);
          }
        }
        RKey::All(rs) | RKey::Any(rs) => rs.iter().for_each(|r| r.fields(out)),
        RKey::Not(r) => r.fields(out),
        RKey::Nth { of: Some(r), .. } => r.fields(out),
        _ => {}
      }
    }
  }
}

/// what the wire conversion needs from the concrete document
pub struct DocInfo<'a> {
  pub lang: SupportLang,
  pub nodes: &'a [N<'a>],
  pub ids: &'a HashMap<usize, usize>,
}

#[derive(Debug)]
pub struct WireErr(pub String);

impl RObj {
  /// serialised form for the model; Err when a part cannot be resolved (invalid kind, pattern, regex…)
  pub fn wire(&self, d: &DocInfo) -> Result<Val, WireErr> {
    let mut items = vec![];
    let ts = d.lang.get_ts_language();
    for k in &self.keys {
      let payload = match k {
        RKey::Pattern { text, selector, strictness } => {
          let p = match selector {
            Some(sel) => Pattern::contextual(text, sel, d.lang).map_err(|e| WireErr(format!("pattern: {e}")))?,
            None => Pattern::try_new(text, d.lang).map_err(|e| WireErr(format!("pattern: {e}")))?,
          };
          let p = match strictness {
            Some(s) => p.with_strictness(strict_of(*s)),
            None => p,
          };
          dump_pattern(&p)
        }
        RKey::Kind(k) => {
          let id = ts.id_for_node_kind(k, true);
          if id == 0 {
            return Err(WireErr(format!("kind {k}")));
          }
          Val::n(id as usize)
        }
        RKey::Regex(r) => {
          let re = regex::Regex::new(r).map_err(|e| WireErr(format!("regex: {e}")))?;
          let mut hits = vec![];
          for n in d.nodes {
            if re.is_match(&n.text()) {
              if let Some(id) = d.ids.get(&n.node_id()) {
                hits.push(Val::n(*id));
              }
            }
          }
          Val::L(hits)
        }
        RKey::Nth { pos, reverse, of, .. } => {
          let p = match pos {
            NthPos::Num(n) => Val::n(*n),
            NthPos::Str(s) => Val::chars(s),
          };
          let o = match of {
            Some(o) => Val::opt(Some(o.wire(d)?)),
            None => Val::opt(None),
          };
          vl![p, Val::b(*reverse), o]
        }
        RKey::Range(a, b, c, e) => vl![Val::n(*a), Val::n(*b), Val::n(*c), Val::n(*e)],
        RKey::Inside(r) | RKey::Has(r) | RKey::Precedes(r) | RKey::Follows(r) => {
          let stop = match &r.stop {
            Stop::Neighbor => vl![Val::Z(0)],
            Stop::End => vl![Val::Z(1)],
            Stop::Rule(sr) => vl![Val::Z(2), sr.wire(d)?],
          };
          let fld = match &r.field {
            None => Val::opt(None),
            Some(f) => match ts.field_id_for_name(f) {
              Some(id) if !field_view_consistent(d.nodes, id) => return Err(WireErr(format!("field {f} reaches a child through a second field name"))),
              Some(id) => Val::opt(Some(Val::n(id as usize))),
              None => return Err(WireErr(format!("field {f}"))),
            },
          };
          vl![r.rule.wire(d)?, stop, fld]
        }
        RKey::All(rs) | RKey::Any(rs) => Val::L(rs.iter().map(|r| r.wire(d)).collect::<Result<Vec<_>, _>>()?),
        RKey::Not(r) => r.wire(d)?,
        RKey::Matches(id) => Val::str_bytes(id),
      };
      items.push(vl![Val::n(key_id(k)), payload]);
    }
    Ok(Val::L(items))
  }
}

/// ingredients harvested from a parsed document
pub struct Ingredients {
  pub kinds: Vec<String>,
  pub fields: Vec<String>,
  pub patterns: Vec<(String, Option<String>)>,
  pub ranges: Vec<(usize, usize, usize, usize)>,
  pub regexes: Vec<String>,
}

pub fn harvest(lang: SupportLang, nodes: &[N], rng: &mut Rng) -> Ingredients {
  let mut kinds: Vec<String> = vec![];
  let mut fields: Vec<String> = vec![];
  let mut patterns = vec![];
  let mut ranges = vec![];
  let ts = lang.get_ts_language();
  for n in nodes {
    if n.is_named() {
      let k = n.kind().to_string();
      if !kinds.contains(&k) && k != "ERROR" && ts.id_for_node_kind(&k, true) != 0 {
        kinds.push(k);
      }
    }
  }
  // field names present in the tree
  for n in nodes {
    let tsn = n.get_ts_node();
    let mut c = tsn.walk();
    if c.goto_first_child() {
      loop {
        if let Some(f) = c.field_name() {
          let f = f.to_string();
          if !fields.contains(&f) {
            fields.push(f);
          }
        }
        if !c.goto_next_sibling() {
          break;
        }
      }
    }
  }
  let small: Vec<&N> = nodes.iter().filter(|n| n.is_named() && !n.range().is_empty() && n.range().len() <= 60 && !n.text().contains('$') && !n.text().contains('\n')).collect();
  for _ in 0..40 {
    if small.is_empty() {
      break;
    }
    let t = (*rng.pick(&small)).clone();
    let cut = crate::c02::make_cut(&t, rng, false);
    // contextual variant: the node's kind as selector inside its parent's text
    if rng.chance(1, 6) {
      if let Some(p) = t.parent() {
        if p.range().len() <= 120 && !p.text().contains('$') {
          patterns.push((p.text().to_string(), Some(t.kind().to_string())));
          continue;
        }
      }
    }
    patterns.push((cut.text, None));
  }
  for _ in 0..12 {
    let n = rng.pick(nodes);
    let (s, e) = (n.start_pos(), n.end_pos());
    let r = (s.line(), s.column(n), e.line(), e.column(n));
    ranges.push(r);
    if rng.chance(1, 3) {
      ranges.push((r.0, r.1 + 1, r.2, r.3));
    }
  }
  let regexes = vec!["^[a-z]+$".into(), "o".into(), "^.{1,3}$".into(), "[0-9]".into(), "foo|bar".into(), "^\\(".into(), "é|日".into()];
  Ingredients { kinds, fields, patterns, ranges, regexes }
}

pub struct GenCfg {
  pub depth: usize,
  pub utils: Vec<String>,
  pub allow_vars: bool,
}

fn rename_vars(text: &str, tag: usize) -> String {
  // make variables of different patterns distinct: $V0 -> $V0T<tag>
  let mut out = String::new();
  let b: Vec<char> = text.chars().collect();
  let mut i = 0;
  while i < b.len() {
    out.push(b[i]);
    if b[i] == '$' && i + 1 < b.len() && b[i + 1] == 'V' {
      let mut j = i + 1;
      while j < b.len() && (b[j].is_ascii_uppercase() || b[j].is_ascii_digit()) {
        out.push(b[j]);
        j += 1;
      }
      out.push_str(&format!("T{tag}"));
      i = j;
      continue;
    }
    i += 1;
  }
  out
}

pub fn gen_rule(rng: &mut Rng, ing: &Ingredients, cfg: &GenCfg, depth: usize, counter: &mut usize) -> RObj {
  let mut keys = vec![];
  let nkeys = if rng.chance(1, 4) { 2 } else { 1 };
  for _ in 0..nkeys {
    let leaf_only = depth >= cfg.depth;
    let choice = if leaf_only { rng.below(5) } else { rng.below(16) };
    let k = match choice {
      0 | 13 if !ing.patterns.is_empty() => {
        let (t, sel) = rng.pick(&ing.patterns).clone();
        *counter += 1;
        let text = if cfg.allow_vars && rng.chance(1, 3) { t } else { rename_vars(&t, *counter) };
        RKey::Pattern { text, selector: sel, strictness: if rng.chance(1, 4) { Some(rng.below(5)) } else { None } }
      }
      1 | 14 if !ing.kinds.is_empty() => RKey::Kind(rng.pick(&ing.kinds).clone()),
      2 => RKey::Regex(rng.pick(&ing.regexes).clone()),
      3 => {
        let pos = if rng.chance(1, 2) {
          NthPos::Num(1 + rng.below(4))
        } else {
          NthPos::Str(rng.pick(&["2n+1", "n", "-n+2", "2n", "n+2", "3", "-n+3", "odd-not", "2n-1"]).replace("odd-not", "2n+0"))
        };
        let of = if !leaf_only && rng.chance(1, 3) { Some(Box::new(gen_rule(rng, ing, cfg, depth + 1, counter))) } else { None };
        RKey::Nth { pos, reverse: rng.chance(1, 3), of, simple: rng.chance(1, 2) }
      }
      4 if !ing.ranges.is_empty() => {
        let r = *rng.pick(&ing.ranges);
        RKey::Range(r.0, r.1, r.2, r.3)
      }
      5..=8 => {
        let stop = match rng.below(3) {
          0 => Stop::Neighbor,
          1 => Stop::End,
          _ => Stop::Rule(gen_rule(rng, ing, cfg, cfg.depth, counter)),
        };
        let field = if (choice == 5 || choice == 6) && !ing.fields.is_empty() && rng.chance(1, 4) { Some(rng.pick(&ing.fields).clone()) } else { None };
        let rel = Box::new(Rel { rule: gen_rule(rng, ing, cfg, depth + 1, counter), stop, field });
        match choice {
          5 => RKey::Inside(rel),
          6 => RKey::Has(rel),
          7 => RKey::Precedes(rel),
          _ => RKey::Follows(rel),
        }
      }
      9 => RKey::All((0..1 + rng.below(3)).map(|_| gen_rule(rng, ing, cfg, depth + 1, counter)).collect()),
      10 => RKey::Any((0..1 + rng.below(3)).map(|_| gen_rule(rng, ing, cfg, depth + 1, counter)).collect()),
      11 => RKey::Not(Box::new(gen_rule(rng, ing, cfg, depth + 1, counter))),
      12 if !cfg.utils.is_empty() => RKey::Matches(rng.pick(&cfg.utils).clone()),
      _ => {
        if ing.kinds.is_empty() {
          RKey::Regex("o".into())
        } else {
          RKey::Kind(rng.pick(&ing.kinds).clone())
        }
      }
    };
    if !keys.iter().any(|x: &RKey| key_id(x) == key_id(&k)) {
      keys.push(k);
    }
  }
  RObj { keys }
}

// ---------------------------------------------------------------------------------------------
// "witnessed" rules: built around a concrete node so that they are (mostly) TRUE of it — random
// rule trees are almost always false (Cedar's lesson); relations, fields, stop rules and positions
// are taken from the node's real context, then sometimes perturbed into a near miss.

pub fn field_of_child(parent: &N, child: &N) -> Option<String> {
  let tsn = parent.get_ts_node();
  let mut c = tsn.walk();
  if !c.goto_first_child() {
    return None;
  }
  loop {
    if c.node().id() == child.node_id() {
      return c.field_name().map(|s| s.to_string());
    }
    if !c.goto_next_sibling() {
      return None;
    }
  }
}

fn atom_for(rng: &mut Rng, lang: SupportLang, x: &N, counter: &mut usize, allow_vars: bool) -> RKey {
  let ts = lang.get_ts_language();
  let kind_ok = x.is_named() && x.kind() != "ERROR" && ts.id_for_node_kind(&x.kind(), true) != 0;
  match rng.below(6) {
    0 | 1 if kind_ok => RKey::Kind(x.kind().to_string()),
    2 if x.is_named() && !x.range().is_empty() && x.range().len() <= 80 && !x.text().contains('$') && !x.text().contains('\n') => {
      let cut = crate::c02::make_cut(x, rng, false);
      *counter += 1;
      let text = if allow_vars && rng.chance(1, 2) { cut.text } else { rename_vars(&cut.text, *counter) };
      RKey::Pattern { text, selector: None, strictness: if rng.chance(1, 5) { Some(rng.below(5)) } else { None } }
    }
    3 => {
      let (s, e) = (x.start_pos(), x.end_pos());
      RKey::Range(s.line(), s.column(x), e.line(), e.column(x))
    }
    4 if x.is_named() => {
      // position among named siblings
      if let Some(p) = x.parent() {
        let named: Vec<N> = p.children().filter(|c| c.is_named()).collect();
        let idx = named.iter().position(|c| c.node_id() == x.node_id()).unwrap_or(0);
        let rev = rng.chance(1, 3);
        let i = if rev { named.len() - idx } else { idx + 1 };
        let pos = match rng.below(4) {
          0 => NthPos::Num(i),
          1 => NthPos::Str(format!("n+{i}")),
          2 => NthPos::Str(format!("-n+{i}")),
          _ => NthPos::Str(if i % 2 == 0 { "2n".into() } else { "2n+1".into() }),
        };
        RKey::Nth { pos, reverse: rev, of: None, simple: false }
      } else {
        RKey::Regex(".".into())
      }
    }
    _ => {
      if kind_ok { RKey::Kind(x.kind().to_string()) } else { RKey::Regex(".".into()) }
    }
  }
}

pub fn gen_witnessed(rng: &mut Rng, lang: SupportLang, n: &N, depth: usize, counter: &mut usize, allow_vars: bool, utils: &[String]) -> RObj {
  let atom = |rng: &mut Rng, x: &N, counter: &mut usize| RObj::one(atom_for(rng, lang, x, counter, allow_vars));
  if depth == 0 {
    return atom(rng, n, counter);
  }
  let sub = |rng: &mut Rng, x: &N, counter: &mut usize| gen_witnessed(rng, lang, x, depth - 1, counter, allow_vars, utils);
  let mut keys: Vec<RKey> = vec![];
  if rng.chance(1, 2) {
    keys.push(atom_for(rng, lang, n, counter, allow_vars));
  }
  let choice = rng.below(10);
  let k = match choice {
    0 | 1 => {
      // inside: an ancestor at distance 1..4
      let anc: Vec<N> = n.ancestors().take(4).collect();
      if anc.is_empty() {
        RKey::Not(Box::new(RObj::one(RKey::Inside(Box::new(Rel { rule: atom(rng, n, counter), stop: Stop::End, field: None })))))
      } else {
        let d = rng.below(anc.len());
        let a = anc[d].clone();
        let path_child = if d == 0 { n.clone() } else { anc[d - 1].clone() };
        let mut field = if rng.chance(2, 3) { field_of_child(&a, &path_child) } else { None };
        let mut stop = if d == 0 && rng.chance(1, 2) {
          Stop::Neighbor
        } else if rng.chance(1, 2) {
          Stop::End
        } else {
          // stop rule true at the target ancestor (inclusive) or at one farther up
          let far = anc[d + rng.below(anc.len() - d)].clone();
          Stop::Rule(atom(rng, &far, counter))
        };
        // near misses
        if rng.chance(1, 8) { stop = Stop::Neighbor; }
        if rng.chance(1, 10) { field = field_of_child(&n.parent().unwrap(), n); }
        RKey::Inside(Box::new(Rel { rule: sub(rng, &a, counter), stop, field }))
      }
    }
    2 | 3 => {
      // has: a descendant at depth 1..3 along a random path
      let mut path: Vec<N> = vec![];
      let mut cur = n.clone();
      for _ in 0..(1 + rng.below(3)) {
        let cs: Vec<N> = cur.children().collect();
        if cs.is_empty() { break; }
        cur = rng.pick(&cs).clone();
        path.push(cur.clone());
      }
      if path.is_empty() {
        RKey::Not(Box::new(RObj::one(RKey::Has(Box::new(Rel { rule: atom(rng, n, counter), stop: Stop::End, field: None })))))
      } else {
        let d = path.last().unwrap().clone();
        let mut field = if rng.chance(2, 3) { field_of_child(n, &path[0]) } else { None };
        let mut stop = if path.len() == 1 && rng.chance(1, 2) {
          Stop::Neighbor
        } else if rng.chance(1, 2) {
          Stop::End
        } else {
          let at = rng.pick(&path).clone();
          Stop::Rule(atom(rng, &at, counter))
        };
        if rng.chance(1, 8) { stop = Stop::Neighbor; }
        if rng.chance(1, 10) { field = d.parent().and_then(|p| field_of_child(&p, &d)); }
        // the stop rule true AT the field child while the target lies below it: the search must not pass it
        if path.len() >= 2 && rng.chance(1, 2) {
          if let Some(f) = field_of_child(n, &path[0]) {
            field = Some(f);
            stop = Stop::Rule(atom(rng, &path[0], counter));
          }
        }
        RKey::Has(Box::new(Rel { rule: sub(rng, &d, counter), stop, field }))
      }
    }
    4 | 5 => {
      let fwd = choice == 4;
      let sibs: Vec<N> = if fwd { n.next_all().collect() } else { n.prev_all().collect() };
      if sibs.is_empty() {
        let rel = Box::new(Rel { rule: atom(rng, n, counter), stop: Stop::End, field: None });
        RKey::Not(Box::new(RObj::one(if fwd { RKey::Precedes(rel) } else { RKey::Follows(rel) })))
      } else {
        let i = rng.below(sibs.len().min(5));
        let mut stop = if i == 0 && rng.chance(1, 2) {
          Stop::Neighbor
        } else if rng.chance(1, 2) {
          Stop::End
        } else {
          let at = sibs[i + rng.below(sibs.len() - i)].clone();
          Stop::Rule(atom(rng, &at, counter))
        };
        if rng.chance(1, 8) { stop = Stop::Neighbor; }
        let rel = Box::new(Rel { rule: sub(rng, &sibs[i], counter), stop, field: None });
        if fwd { RKey::Precedes(rel) } else { RKey::Follows(rel) }
      }
    }
    6 => RKey::All((0..1 + rng.below(3)).map(|_| sub(rng, n, counter)).collect()),
    7 => {
      // any: a (probably) false branch before the true one
      let mut v = vec![];
      if let Some(p) = n.parent() {
        if rng.chance(2, 3) { v.push(sub(rng, &p, counter)); }
      }
      v.push(sub(rng, n, counter));
      RKey::Any(v)
    }
    8 => {
      // not of something (probably) false of n: a rule witnessed by its parent or a child
      let other = n.parent().or_else(|| n.child(0)).unwrap_or_else(|| n.clone());
      RKey::Not(Box::new(sub(rng, &other, counter)))
    }
    _ => {
      if !utils.is_empty() && rng.chance(1, 2) {
        RKey::Matches(rng.pick(utils).clone())
      } else {
        // nthChild with ofRule witnessed by the node
        if let Some(p) = n.parent() {
          if n.is_named() {
            let of = atom(rng, n, counter);
            let _ = p;
            RKey::Nth { pos: NthPos::Str(rng.pick(&["n", "n+1", "2n+1", "-n+3", "1", "2"]).to_string()), reverse: rng.chance(1, 3), of: Some(Box::new(of)), simple: false }
          } else {
            atom_for(rng, lang, n, counter, allow_vars)
          }
        } else {
          atom_for(rng, lang, n, counter, allow_vars)
        }
      }
    }
  };
  if !keys.iter().any(|x: &RKey| key_id(x) == key_id(&k)) {
    keys.push(k);
  }
  RObj { keys }
}
