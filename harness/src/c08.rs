//! C08 — one rule, one fix: every front end proposes the same edit (byte range and replacement text).
//! Reference = NodeMatch::make_edit through the library for every match; compared with `sg scan --json`,
//! `sg scan -U`, the `fixed` text of `sg test -U` snapshots, AstGrep::replace / Node::replace through a
//! borrowed replacer, and the language server's quick-fix and fix-all code actions.
use crate::c01::load_rules;
use crate::c18::{gen_fix_rules, splice};
use crate::cli::{fresh_dir, json_lines, rec_key, sg};
use crate::corpus;
use crate::lsp::{did_open, published, run_lsp};
use crate::out::Out;
use crate::rng::Rng;
use crate::rulegen::harvest;
use crate::Opts;
use ast_grep_core::matcher::MatcherExt;
use ast_grep_core::Language;
use ast_grep_language::SupportLang;
use serde_json::{json, Value};

fn pos_to_offset(src: &str, line: usize, ch: usize) -> usize {
  let mut off = 0;
  for (i, l) in src.split_inclusive('\n').enumerate() {
    if i == line {
      return off + l.char_indices().nth(ch).map(|x| x.0).unwrap_or(l.trim_end_matches('\n').len());
    }
    off += l.len();
  }
  src.len()
}

pub fn run(o: &Opts) {
  let mut out = Out::new(&o.out);
  let mut rng = Rng::new(o.seed ^ 0xc08);
  let rounds = if o.thorough { 12 } else { 4 };
  let mut sampled = false;
  let langs = [SupportLang::TypeScript, SupportLang::JavaScript, SupportLang::Python, SupportLang::Rust, SupportLang::Go, SupportLang::Java, SupportLang::Json];
  let nl = if o.thorough { langs.len() } else { 3 };
  // TypeScript / JavaScript are always among the languages (the object-literal layout needs them)
  for k in 0..nl {
    let lang = if k == 0 { langs[(o.seed as usize) % 2] } else { langs[(o.seed as usize + k * 2) % langs.len()] };
    let ext = corpus::lang_ext(lang);
    for round in 0..rounds {
      let dir = fresh_dir(&o.out, &format!("e_{lang}_{round}"));
      let srcs = corpus::clean_sources(lang, &mut rng, 1, 500);
      let Some(src) = srcs.first().cloned() else { continue };
      let src = if round % 4 == 3 && matches!(lang, SupportLang::TypeScript | SupportLang::JavaScript) { format!("{src}\nvar o = {{ b: 123, c: 4, }};\nvar cafééé日本 = {{ b: 123, \"ü\": 4, c: 5, }};\nvar tight = {{a:1,b:2,c:3,}};\n") } else { src };
      let g = corpus::parse(lang, &src);
      let nodes = corpus::all_nodes(g.root());
      let ing = harvest(lang, &nodes, &mut rng);
      // one fix rule: string / object form, with and without expansions, patterns that leave trailing punctuation out
      let mut frs = gen_fix_rules(&mut rng, lang, &ing.patterns, 1);
      if round % 4 == 3 && matches!(lang, SupportLang::TypeScript | SupportLang::JavaScript) {
        // (the last line has no blank between the pairs: the replaced ranges of neighbouring matches TOUCH)
      // a fix whose template reproduces the matched node while the expansion widens the replaced range
        // (the rule captures the whole node in $P and the template is just $P: the replacement equals the node's text)
        frs = vec![crate::c18::FixRule { yaml: format!("id: fx0\nlanguage: {lang}\nmessage: fix 0\nrule:\n  kind: pair\n  pattern: $P\nfix:\n  template: $P\n  expandEnd: {{regex: '^,$'}}\n"), expands: true }];
      }
      let Some(fr) = frs.first() else { continue };
      let Some(rules) = load_rules(&[fr.yaml.clone()]) else { out.count("rule:rejected"); continue };
      let rule = &rules[0];
      let Some(fixer) = rule.matcher.fixer.as_ref() else { continue };
      // ---- reference edits
      let mut reference: Vec<(usize, usize, usize, usize, String)> = vec![]; // node start, node end, edit start, edit end, text
      for n in &nodes {
        if let Some(nm) = rule.matcher.match_node(n.clone()) {
          let e = nm.make_edit(&rule.matcher, fixer);
          reference.push((n.range().start, n.range().end, e.position, e.position + e.deleted_length, String::from_utf8_lossy(&e.inserted_text).to_string()));
        }
      }
      out.count(if reference.is_empty() { "rule:no-match" } else if fr.expands { "rule:expanding-fix" } else { "rule:plain-fix" });
      if reference.is_empty() {
        continue;
      }
      out.nontrivial(&(lang.to_string(), fr.yaml.clone(), src.len()));
      if !sampled {
        sampled = true;
        out.sample(json!({"lang": lang.to_string(), "rule": fr.yaml, "matches": reference.len()}));
      }
      let what = format!("lang={lang} rule={} source={}", serde_json::to_string(&fr.yaml).unwrap(), serde_json::to_string(&src[..src.char_indices().nth(200).map(|x| x.0).unwrap_or(src.len())]).unwrap());
      let file = format!("a.{ext}");
      std::fs::write(dir.join(&file), &src).unwrap();
      let rp = o.out.join(format!("rule_{lang}_{round}.yml"));
      std::fs::write(&rp, &fr.yaml).unwrap();
      let rabs = std::fs::canonicalize(&rp).unwrap();
      let mut fail = |out: &mut Out, front: &str, msg: String| {
        out.oracle_fail("", &format!("{front}: {msg}; {what}"), json!({"stream": "c08", "front": front, "rule": fr.yaml, "source": src}));
      };
      // ---- 1. sg scan --json
      {
        let r = sg(&dir, &["scan", "-r", rabs.to_str().unwrap(), "--json=stream", &file], None, 30);
        let mut got: Vec<(usize, usize, usize, usize, String)> = json_lines(&r.stdout).unwrap_or_default().iter().map(|rec| {
          let k = rec_key(rec);
          (k.2, k.3, rec["replacementOffsets"]["start"].as_u64().unwrap_or(0) as usize, rec["replacementOffsets"]["end"].as_u64().unwrap_or(0) as usize, rec["replacement"].as_str().unwrap_or("").to_string())
        }).collect();
        got.sort();
        let mut want = reference.clone();
        want.sort();
        out.checked();
        if got != want {
          fail(&mut out, "sg scan --json", format!("{} edits announced, the library proposes {}; first difference {:?}", got.len(), want.len(), got.iter().find(|x| !want.contains(x)).or_else(|| want.iter().find(|x| !got.contains(x)))));
        }
      }
      // ---- 2. sg scan -U
      let edits: Vec<(usize, usize, String)> = reference.iter().map(|r| (r.2, r.3, r.4.clone())).collect();
      {
        let d2 = fresh_dir(&dir, "u");
        std::fs::write(d2.join(&file), &src).unwrap();
        let _ = sg(&d2, &["scan", "-r", rabs.to_str().unwrap(), "-U", &file], None, 30);
        let after = std::fs::read(d2.join(&file)).unwrap_or_default();
        out.checked();
        if let Ok((want, _)) = splice(src.as_bytes(), &edits) {
          if after != want {
            fail(&mut out, "sg scan -U", format!("the file differs from the source with the library's {} edits applied", edits.len()));
          }
        }
      }
      // first edit applied alone: what `replace` and the snapshot record
      let first_only = splice(src.as_bytes(), &edits[..1]).map(|x| String::from_utf8_lossy(&x.0).to_string()).unwrap_or_default();
      // ---- 3. library replace through a borrowed replacer
      {
        let mut doc = lang.ast_grep(&src);
        let r = std::panic::catch_unwind(std::panic::AssertUnwindSafe(|| doc.replace(&rule.matcher, fixer)));
        out.checked();
        match r {
          Ok(Ok(true)) => {
            if doc.source().to_string() != first_only {
              fail(&mut out, "AstGrep::replace(&matcher, &fixer)", format!("gives {:?} instead of the source with the first edit applied", doc.source().chars().take(120).collect::<String>()));
            }
          }
          other => fail(&mut out, "AstGrep::replace", format!("returned {:?}", other.map(|x| x.is_ok()))),
        }
        let e = g.root().replace(&rule.matcher, fixer);
        out.checked();
        if e.map(|e| (e.position, e.position + e.deleted_length, String::from_utf8_lossy(&e.inserted_text).to_string())) != Some(edits[0].clone()) {
          fail(&mut out, "Node::replace(&matcher, &fixer)", "differs from make_edit of the first match".into());
        }
      }
      // ---- 4. sg test -U snapshot
      {
        let proj = fresh_dir(&dir, "proj");
        std::fs::create_dir_all(proj.join("rules")).unwrap();
        std::fs::create_dir_all(proj.join("tests")).unwrap();
        std::fs::write(proj.join("sgconfig.yml"), "ruleDirs: [rules]\ntestConfigs:\n  - testDir: tests\n").unwrap();
        std::fs::write(proj.join("rules/fx0.yml"), &fr.yaml).unwrap();
        std::fs::write(proj.join("tests/fx0-test.yml"), format!("id: fx0\ninvalid:\n  - {}\n", serde_json::to_string(&src).unwrap())).unwrap();
        let _ = sg(&proj, &["test", "-U"], None, 60);
        let snap = std::fs::read_to_string(proj.join("tests/__snapshots__/fx0-snapshot.yml")).unwrap_or_default();
        out.checked();
        let fixed = serde_yaml::from_str::<serde_yaml::Value>(&snap).ok().and_then(|v| v.get("snapshots").and_then(|s| s.as_mapping().and_then(|m| m.iter().next().map(|(_, c)| c.get("fixed").and_then(|f| f.as_str().map(|x| x.to_string()))))));
        match fixed {
          Some(Some(f)) => if f != first_only { fail(&mut out, "sg test -U snapshot `fixed`", format!("records {:?}…, the source with the first edit applied is {:?}…", f.chars().take(100).collect::<String>(), first_only.chars().take(100).collect::<String>())); },
          _ => fail(&mut out, "sg test -U", "no snapshot with a `fixed` entry was written".into()),
        }
      }
      // ---- 5. language server: quick-fix per diagnostic and fix-all
      {
        let uri = format!("file://{}/{}", std::fs::canonicalize(&dir).unwrap().to_string_lossy(), file);
        let owned = load_rules(&[fr.yaml.clone()]).unwrap();
        let fixall = json!({"jsonrpc": "2.0", "id": 10, "method": "textDocument/codeAction", "params": {"textDocument": {"uri": uri}, "range": {"start": {"line": 0, "character": 0}, "end": {"line": 0, "character": 0}}, "context": {"diagnostics": [], "only": ["source.fixAll"]}}});
        match run_lsp(owned, &dir, &[did_open(&uri, "x", 1, &src), fixall]) {
          Ok(resp) => {
            let pubs = published(&resp[0]);
            let diags = pubs.last().map(|p| p.2.clone()).unwrap_or_default();
            // quick fix: send the diagnostics back
            let quick = json!({"jsonrpc": "2.0", "id": 11, "method": "textDocument/codeAction", "params": {"textDocument": {"uri": uri}, "range": {"start": {"line": 0, "character": 0}, "end": {"line": 0, "character": 0}}, "context": {"diagnostics": diags}}});
            let owned2 = load_rules(&[fr.yaml.clone()]).unwrap();
            let resp2 = run_lsp(owned2, &dir, &[did_open(&uri, "x", 1, &src), quick]).unwrap_or_default();
            let edits_of = |msgs: &Vec<Value>, id: i64| -> Vec<(usize, usize, String)> {
              let mut v = vec![];
              for m in msgs.iter().filter(|m| m["id"] == id && m.get("result").is_some()) {
                for a in m["result"].as_array().cloned().unwrap_or_default() {
                  for e in a["edit"]["changes"][&uri].as_array().cloned().unwrap_or_default() {
                    let r = &e["range"];
                    v.push((pos_to_offset(&src, r["start"]["line"].as_u64().unwrap_or(0) as usize, r["start"]["character"].as_u64().unwrap_or(0) as usize),
                            pos_to_offset(&src, r["end"]["line"].as_u64().unwrap_or(0) as usize, r["end"]["character"].as_u64().unwrap_or(0) as usize), e["newText"].as_str().unwrap_or("").to_string()));
                  }
                }
              }
              v
            };
            let mut q = edits_of(resp2.get(1).unwrap_or(&vec![]), 11);
            q.sort();
            let mut want = edits.clone();
            want.sort();
            out.checked();
            if q != want {
              fail(&mut out, "language server quick-fix", format!("{} edits offered, the library proposes {}; first difference {:?}", q.len(), want.len(), q.iter().find(|x| !want.contains(x)).or_else(|| want.iter().find(|x| !q.contains(x)))));
            }
            // fix-all: the non-overlapping edits in document order
            let fa = edits_of(resp.get(1).unwrap_or(&vec![]), 10);
            let applied = splice(src.as_bytes(), &fa).map(|x| x.0);
            let mut sorted = edits.clone();
            sorted.sort_by_key(|e| (e.0, e.1));
            let expect = splice(src.as_bytes(), &sorted).map(|x| x.0);
            out.checked();
            if applied != expect {
              fail(&mut out, "language server fix-all", format!("applying its {} edits differs from applying the library's {} edits", fa.len(), sorted.len()));
            }
          }
          Err(e) => fail(&mut out, "language server", e),
        }
      }
    }
  }
  // ---- two rules on one document: a rule WITHOUT fix whose match encloses a fixable match of another rule;
  //      fix-all must still offer the inner fix (what --update-all and the library apply)
  {
    let dir = fresh_dir(&o.out, "enclosing");
    let src = "console.log(foo(1))\nfoo(2)\nconsole.log(3, foo(4), foo(5))\n";
    let yamls = vec![
      "id: no-log\nlanguage: TypeScript\nmessage: m\nrule:\n  pattern: console.log($$$ARGS)\n".to_string(),
      "id: foo-to-bar\nlanguage: TypeScript\nmessage: m\nrule:\n  pattern: foo($X)\nfix: bar($X)\n".to_string(),
    ];
    let rules = load_rules(&yamls).unwrap();
    let g = SupportLang::TypeScript.ast_grep(src);
    let fixr = &rules[1];
    let fixer = fixr.matcher.fixer.as_ref().unwrap();
    let mut want: Vec<(usize, usize, String)> = g.root().dfs().filter_map(|n| fixr.matcher.match_node(n)).map(|nm| { let e = nm.make_edit(&fixr.matcher, fixer); (e.position, e.position + e.deleted_length, String::from_utf8_lossy(&e.inserted_text).to_string()) }).collect();
    want.sort();
    let uri = format!("file://{}/a.ts", std::fs::canonicalize(&dir).unwrap().to_string_lossy());
    let fixall = json!({"jsonrpc": "2.0", "id": 10, "method": "textDocument/codeAction", "params": {"textDocument": {"uri": uri}, "range": {"start": {"line": 0, "character": 0}, "end": {"line": 0, "character": 0}}, "context": {"diagnostics": [], "only": ["source.fixAll"]}}});
    out.checked();
    out.count("layout:fix-inside-fixless-match");
    match run_lsp(load_rules(&yamls).unwrap(), &dir, &[did_open(&uri, "typescript", 1, src), fixall]) {
      Ok(resp) => {
        let mut got = vec![];
        for m in resp.get(1).unwrap_or(&vec![]).iter().filter(|m| m["id"] == 10 && m.get("result").is_some()) {
          for a in m["result"].as_array().cloned().unwrap_or_default() {
            for e in a["edit"]["changes"][&uri].as_array().cloned().unwrap_or_default() {
              let r = &e["range"];
              got.push((pos_to_offset(src, r["start"]["line"].as_u64().unwrap_or(0) as usize, r["start"]["character"].as_u64().unwrap_or(0) as usize),
                        pos_to_offset(src, r["end"]["line"].as_u64().unwrap_or(0) as usize, r["end"]["character"].as_u64().unwrap_or(0) as usize), e["newText"].as_str().unwrap_or("").to_string()));
            }
          }
        }
        got.sort();
        if got != want {
          out.oracle_fail("", &format!("language server fix-all with a fix-less rule enclosing fixable matches offers {:?}, the library's edits for the fixable rule are {:?}", got, want), json!({"stream": "c08", "front": "lsp-fix-all-enclosing", "rules": yamls, "source": src}));
        }
      }
      Err(e) => out.oracle_fail("", &format!("language server failed: {e}"), json!({"stream": "c08"})),
    }
  }
  out.finish("one fix rule (string / object form, empty, wrapping, duplicating, multi-byte templates, expandStart / expandEnd, a template that reproduces the node while the expansion widens the range) on corpus sources: \
              the edit (byte range + replacement) of every match from NodeMatch::make_edit is the reference; compared with `sg scan --json` (replacement, replacementOffsets), the bytes written by `sg scan -U`, \
              AstGrep::replace and Node::replace through a BORROWED fixer, the `fixed` text of the `sg test -U` snapshot, and the language server's quick-fix and fix-all code actions (LSP positions converted back to byte offsets); plus a document where a fix-less rule's match encloses fixable matches of another rule (fix-all must still offer them). \
              non-trivial = the rule has a match");
}
