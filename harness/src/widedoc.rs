//! A document whose text is UTF-16 code units (the shape of the napi binding's JsDoc / Wrapper): the library is
//! generic in the document's content, and byte offsets are then twice the unit offsets.
use ast_grep_core::source::{Content, Doc, Edit, TSParseError};
use ast_grep_core::Language;
use ast_grep_language::SupportLang;
use std::borrow::Cow;
use std::ops::Range;
use tree_sitter::{InputEdit, Node, Parser, ParserError, Point, Tree};

#[derive(Clone)]
pub struct Wide {
  pub inner: Vec<u16>,
}

fn pos_for_byte_offset(input: &[u16], byte_offset: usize) -> Point {
  let offset = byte_offset / 2;
  let (mut row, mut col) = (0, 0);
  for c in char::decode_utf16(input.iter().copied()).take(offset) {
    if let Ok('\n') = c {
      row += 1;
      col = 0;
    } else {
      col += 1;
    }
  }
  Point::new(row, col)
}

impl Content for Wide {
  type Underlying = u16;
  fn parse_tree_sitter(&self, parser: &mut Parser, tree: Option<&Tree>) -> std::result::Result<Option<Tree>, ParserError> {
    parser.parse_utf16_le(self.inner.as_slice(), tree)
  }
  fn get_range(&self, range: Range<usize>) -> &[u16] {
    &self.inner.as_slice()[range.start / 2..range.end / 2]
  }
  fn accept_edit(&mut self, edit: &Edit<Self>) -> InputEdit {
    let start_byte = edit.position;
    let old_end_byte = edit.position + edit.deleted_length;
    let new_end_byte = edit.position + edit.inserted_text.len() * 2;
    let start_position = pos_for_byte_offset(&self.inner, start_byte);
    let old_end_position = pos_for_byte_offset(&self.inner, old_end_byte);
    self.inner.splice(start_byte / 2..old_end_byte / 2, edit.inserted_text.clone());
    let new_end_position = pos_for_byte_offset(&self.inner, new_end_byte);
    InputEdit::new(start_byte as u32, old_end_byte as u32, new_end_byte as u32, &start_position, &old_end_position, &new_end_position)
  }
  fn get_text<'a>(&'a self, node: &Node) -> Cow<'a, str> {
    let (s, e) = (node.start_byte() as usize / 2, node.end_byte() as usize / 2);
    String::from_utf16_lossy(&self.inner[s..e]).into()
  }
  fn decode_str(src: &str) -> Cow<[u16]> {
    Cow::Owned(src.encode_utf16().collect())
  }
  fn encode_bytes(bytes: &[u16]) -> Cow<str> {
    Cow::Owned(String::from_utf16_lossy(bytes))
  }
  fn get_char_column(&self, column: usize, _offset: usize) -> usize {
    column / 2
  }
}

#[derive(Clone)]
pub struct WideDoc {
  pub lang: SupportLang,
  pub source: Wide,
}

impl WideDoc {
  pub fn new(src: &str, lang: SupportLang) -> Self {
    WideDoc { lang, source: Wide { inner: src.encode_utf16().collect() } }
  }
  pub fn text(&self) -> String {
    String::from_utf16_lossy(&self.source.inner)
  }
}

impl Doc for WideDoc {
  type Lang = SupportLang;
  type Source = Wide;
  fn parse(&self, old_tree: Option<&Tree>) -> std::result::Result<Tree, TSParseError> {
    let mut parser = Parser::new()?;
    let ts_lang = self.lang.get_ts_language();
    parser.set_language(&ts_lang)?;
    match self.source.parse_tree_sitter(&mut parser, old_tree)? {
      Some(tree) => Ok(tree),
      None => Err(TSParseError::TreeUnavailable),
    }
  }
  fn get_lang(&self) -> &SupportLang {
    &self.lang
  }
  fn get_source(&self) -> &Wide {
    &self.source
  }
  fn get_source_mut(&mut self) -> &mut Wide {
    &mut self.source
  }
  fn from_str(src: &str, lang: SupportLang) -> Self {
    WideDoc::new(src, lang)
  }
  fn clone_with_lang(&self, lang: SupportLang) -> Self {
    WideDoc { source: self.source.clone(), lang }
  }
}
