//! C18 — `--update-all` writes exactly the announced edits; C06 (CLI part) — edits are well-formed and local.
//! The same command is run with --json (the announcement) and with -U on a copy of the tree; the files
//! are compared with an independent splice of the announced edits.
use crate::cli::{fresh_dir, json_lines, rec_key, sg};
use crate::corpus;
use crate::out::Out;
use crate::rng::Rng;
use crate::rulegen::{harvest, vars_of};
use crate::Opts;
use ast_grep_language::SupportLang;
use serde_json::{json, Value};
use std::collections::BTreeMap;
use std::path::Path;

fn copy_tree(from: &Path, to: &Path) {
  std::fs::create_dir_all(to).unwrap();
  for e in std::fs::read_dir(from).unwrap() {
    let e = e.unwrap();
    let p = e.path();
    let t = to.join(e.file_name());
    if p.is_dir() {
      copy_tree(&p, &t);
    } else {
      std::fs::copy(&p, &t).unwrap();
    }
  }
}

fn read_tree(dir: &Path, base: &Path, out: &mut BTreeMap<String, Vec<u8>>) {
  for e in std::fs::read_dir(dir).unwrap() {
    let p = e.unwrap().path();
    if p.is_dir() {
      read_tree(&p, base, out);
    } else {
      out.insert(p.strip_prefix(base).unwrap().to_string_lossy().to_string(), std::fs::read(&p).unwrap());
    }
  }
}

/// the splice the property describes: edits in announced order, dropping one that overlaps an earlier accepted one
pub fn splice(old: &[u8], edits: &[(usize, usize, String)]) -> Result<(Vec<u8>, usize), String> {
  let mut outb = vec![];
  let mut start = 0usize;
  let mut end = 0usize;
  let mut n = 0usize;
  for (s, e, r) in edits {
    if *s < end {
      continue;
    }
    if s > e || *e > old.len() {
      return Err(format!("edit {s}..{e} is not a range of the file"));
    }
    outb.extend_from_slice(&old[start..*s]);
    outb.extend_from_slice(r.as_bytes());
    start = *e;
    end = *e;
    n += 1;
  }
  outb.extend_from_slice(&old[start..]);
  Ok((outb, n))
}

pub struct FixRule {
  pub yaml: String,
  pub expands: bool,
}

/// rules with fixes built from patterns of the tree: string form, object form, with expandStart/expandEnd
pub fn gen_fix_rules(rng: &mut Rng, lang: SupportLang, pats: &[(String, Option<String>)], n: usize) -> Vec<FixRule> {
  let mut v = vec![];
  for i in 0..n {
    let cands: Vec<&(String, Option<String>)> = pats.iter().filter(|p| p.1.is_none() && !p.0.contains('\n')).collect();
    if cands.is_empty() {
      break;
    }
    let (ptext, _) = (*rng.pick(&cands)).clone();
    let vars = vars_of(&ptext);
    let var = vars.first().map(|v| format!("${v}")).unwrap_or_default();
    let template = match rng.below(5) {
      0 => String::new(),
      1 => format!("wrap({var})"),
      2 => format!("{var} /* é日 */"),
      3 => "X".to_string(),
      _ => format!("[{var}, {var}]"),
    };
    let q = |s: &str| serde_json::to_string(s).unwrap();
    let (fix, expands) = match rng.below(5) {
      0 => (format!("fix:\n  template: {}\n  expandEnd: {{regex: ','}}\n", q(&template)), true),
      1 => (format!("fix:\n  template: {}\n  expandStart: {{regex: ','}}\n", q(&template)), true),
      2 => (format!("fix:\n  template: {}\n", q(&template)), false),
      _ => (format!("fix: {}\n", q(&template)), false),
    };
    v.push(FixRule { yaml: format!("id: fx{i}\nlanguage: {lang}\nmessage: fix {i}\nrule:\n  pattern: {}\n{fix}", q(&ptext)), expands });
  }
  v
}


/// the same command with --json=stream (the announcement) and then with -U, twice in a row, on the tree `proj`
fn announce_and_apply(out: &mut Out, proj: &Path, base: &[String], desc: &str, expands: &dyn Fn(&str) -> bool, sampled: &mut bool) {
      // two invocations in a row (the repeated-invocation clause)
      for pass in 0..2 {
        let mut before = BTreeMap::new();
        read_tree(proj, proj, &mut before);
        let mut ja: Vec<&str> = base.iter().map(|x| x.as_str()).collect();
        ja.push("--json=stream");
        ja.push(".");
        let r = sg(proj, &ja, None, 30);
        let what = format!("sg {} --json / -U pass {pass} {desc}", base.join(" "));
        out.checked();
        if r.timed_out || !matches!(r.code, Some(0) | Some(1)) {
          out.oracle_fail("", &format!("{what}: --json exit {:?} timed_out={} stderr={}", r.code, r.timed_out, r.stderr.chars().take(300).collect::<String>()), json!({"stream": "c18"}));
          break;
        }
        let Ok(recs) = json_lines(&r.stdout) else { break };
        // --json groups the records by rule; -U goes through the file in document order (the order in which
        // the nodes are discovered, rules by id on the same node): announced edits are ordered that way
        let mut recs = recs;
        recs.sort_by_key(|rec| { let k = rec_key(rec); (k.0, k.2, usize::MAX - k.3, k.1) });
        let mut per_file: BTreeMap<String, Vec<(usize, usize, String)>> = BTreeMap::new();
        let mut file_langs: BTreeMap<String, std::collections::BTreeSet<String>> = BTreeMap::new();
        let mut c06_bad: Option<String> = None;
        for rec in &recs {
          let (file, rid, ns, ne) = rec_key(rec);
          let Some(ro) = rec.get("replacementOffsets") else { continue };
          let (s, e) = (ro["start"].as_u64().unwrap_or(0) as usize, ro["end"].as_u64().unwrap_or(0) as usize);
          let rep = rec["replacement"].as_str().unwrap_or("").to_string();
          // C06: locality of the announced edit
          let exp = expands(&rid);
          let old = before.get(&file).cloned().unwrap_or_default();
          let local = if exp { s <= ns && e >= ns && e <= old.len() } else { s == ns && e <= ne };
          let on_boundary = std::str::from_utf8(&old[..s.min(old.len())]).is_ok() && std::str::from_utf8(&old[..e.min(old.len())]).is_ok();
          if c06_bad.is_none() && (!local || !on_boundary || s > e) {
            c06_bad = Some(format!("{file}: rule {rid} matched {ns}..{ne} but proposes to replace {s}..{e} (expansion configured: {exp}, on character boundaries: {on_boundary})"));
          }
          file_langs.entry(file.clone()).or_default().insert(rec["language"].as_str().unwrap_or("").to_string());
          per_file.entry(file).or_default().push((s, e, rep));
        }
        if let Some(m) = c06_bad {
          out.oracle_fail("", &format!("{what}: {m}"), json!({"stream": "c06-locality", "desc": desc}));
        }
        // -U on the same tree
        let mut ua: Vec<&str> = base.iter().map(|x| x.as_str()).collect();
        ua.push("-U");
        ua.push(".");
        let ru = sg(proj, &ua, None, 30);
        if ru.timed_out || !matches!(ru.code, Some(0) | Some(1)) {
          out.oracle_fail("", &format!("{what}: -U exit {:?} timed_out={} stderr={}", ru.code, ru.timed_out, ru.stderr.chars().take(300).collect::<String>()), json!({"stream": "c18", "desc": desc}));
          break;
        }
        let mut after = BTreeMap::new();
        read_tree(proj, proj, &mut after);
        let mut total = 0usize;
        let mut bad: Option<String> = None;
        let mut bad_class = "";
        for (f, old) in &before {
          let edits = per_file.get(f).cloned().unwrap_or_default();
          match splice(old, &edits) {
            Ok((want, n)) => {
              total += n;
              if after.get(f) != Some(&want) && bad.is_none() {
                if file_langs.get(f).map(|l| l.len()).unwrap_or(0) > 1 {
                  bad_class = "multi-document-file";
                }
                bad = Some(format!("{f}: after -U the file differs from the original with the {} announced edits applied ({} accepted)", edits.len(), n));
              }
              if std::str::from_utf8(&want).is_err() && std::str::from_utf8(old).is_ok() && bad.is_none() {
                bad = Some(format!("{f}: applying the announced edits does not give valid UTF-8"));
              }
            }
            Err(m) => bad = bad.or(Some(format!("{f}: {m}"))),
          }
        }
        // tie: the model's update_file on (old text, announced edits in document order) per file
        for (f, old) in &before {
          let edits = per_file.get(f).cloned().unwrap_or_default();
          if edits.is_empty() || file_langs.get(f).map(|l| l.len()).unwrap_or(0) > 1 {
            continue;
          }
          let accepted = splice(old, &edits).map(|x| x.1).unwrap_or(0);
          let changed = after.get(f) != Some(old);
          let exp_new = if accepted == 0 { crate::val::Val::opt(None) } else { crate::val::Val::opt(Some(crate::val::Val::bytes(after.get(f).map(|v| v.as_slice()).unwrap_or(&[])))) };
          let _ = changed;
          out.case(43, &crate::vl![crate::val::Val::bytes(old), crate::val::Val::L(edits.iter().map(|(s, e, r)| crate::vl![crate::val::Val::n(*s), crate::val::Val::n(*e), crate::val::Val::str_bytes(r)]).collect())],
            &crate::vl![crate::val::Val::Z(0), exp_new, crate::val::Val::n(accepted)], &format!("update_file {f} ({} announced edits) {}", edits.len(), what.chars().take(200).collect::<String>()));
        }
        let applied: usize = ru.stdout.find("Applied ").and_then(|i| ru.stdout[i + 8..].split(' ').next().and_then(|x| x.parse().ok())).unwrap_or(0);
        if bad.is_none() && applied != total {
          bad = Some(format!("the command reports {applied} applied changes, {total} edits are present in the files"));
        }
        out.count(if total == 0 { "update:no-edit" } else if per_file.values().any(|v| v.len() > 1) { "update:several-edits-in-a-file" } else { "update:single-edits" });
        if total > 0 {
          out.nontrivial(&(desc.to_string(), pass));
          if !*sampled {
            *sampled = true;
            out.sample(json!({"cmd": what.chars().take(300).collect::<String>(), "edits": total}));
          }
        }
        if let Some(m) = bad {
          out.oracle_fail(bad_class, &format!("{what}: {m}"), json!({"stream": "c18", "desc": desc, "stdout": ru.stdout.chars().take(300).collect::<String>()}));
          break;
        }
      }
}

pub fn run(o: &Opts) {
  let mut out = Out::new(&o.out);
  let mut rng = Rng::new(o.seed ^ 0xc18);
  let rounds = if o.thorough { 12 } else { 6 };
  let mut sampled = false;
  let langs = [SupportLang::JavaScript, SupportLang::TypeScript, SupportLang::Python, SupportLang::Rust, SupportLang::Go, SupportLang::Java, SupportLang::Json, SupportLang::Css, SupportLang::Ruby, SupportLang::Kotlin];
  let nl = if o.thorough { langs.len() } else { 6 };
  for k in 0..nl {
    let lang = langs[(o.seed as usize * 3 + k) % langs.len()];
    let ext = corpus::lang_ext(lang);
    for round in 0..rounds {
      let base = fresh_dir(&o.out, &format!("w_{lang}_{round}"));
      let proj = base.join("json");
      std::fs::create_dir_all(&proj).unwrap();
      let mut srcs = corpus::sources(lang, &mut rng, 3, 600);
      if let Some(s0) = srcs.first().cloned() {
        srcs.push(s0.replace('\n', "\r\n"));
      }
      let mut names = vec![];
      for (i, s) in srcs.iter().enumerate() {
        let rel = if i % 2 == 0 { format!("f{i}.{ext}") } else { format!("d{i}/g{i}.{ext}") };
        let p = proj.join(&rel);
        std::fs::create_dir_all(p.parent().unwrap()).unwrap();
        std::fs::write(&p, s).unwrap();
        names.push(rel);
      }
      std::fs::write(proj.join(format!("untouched.{ext}.txt")), "not a source file\n").unwrap();
      let sg0 = corpus::parse(lang, &srcs[0]);
      let nodes0 = corpus::all_nodes(sg0.root());
      let ing = harvest(lang, &nodes0, &mut rng);
      let nr = 1 + rng.below(3);
      let mut rules = gen_fix_rules(&mut rng, lang, &ing.patterns, nr);
      if round <= 1 {
        // embedded languages: a host document with injected script/style, rules for host and injected languages
        let html = "<div class=\"a\">x</div>\n<script>foo(1); foo(2)</script>\n<style>.a { color: red }</style>\n<p class=\"a\">y</p>\n";
        std::fs::write(proj.join("page.html"), html).unwrap();
        names.push("page.html".into());
        match if round == 0 { 2 } else { rng.below(2) } {
          0 => rules.push(FixRule { yaml: "id: hx\nlanguage: html\nmessage: h\nrule:\n  kind: attribute_value\n  regex: \"^a$\"\nfix: \"b\"\n".into(), expands: false }),
          1 => rules.push(FixRule { yaml: "id: jx\nlanguage: js\nmessage: j\nrule:\n  pattern: foo($A)\nfix: bar($A)\n".into(), expands: false }),
          _ => {
            rules.push(FixRule { yaml: "id: hx\nlanguage: html\nmessage: h\nrule:\n  kind: attribute_value\n  regex: \"^a$\"\nfix: \"b\"\n".into(), expands: false });
            rules.push(FixRule { yaml: "id: jx\nlanguage: js\nmessage: j\nrule:\n  pattern: foo($A)\nfix: bar($A)\n".into(), expands: false });
          }
        }
      }
      if rules.is_empty() {
        continue;
      }
      let yamls: Vec<String> = rules.iter().map(|r| r.yaml.clone()).collect();
      if crate::c01::load_rules(&yamls).is_none() {
        out.count("rules:rejected");
        continue;
      }
      let rule_path = base.join("rules.yml");
      std::fs::write(&rule_path, yamls.join("---\n")).unwrap();
      let rabs = std::fs::canonicalize(&rule_path).unwrap();
      let rarg = rabs.to_str().unwrap();
      let base_args: Vec<String> = vec!["scan".into(), "-r".into(), rarg.to_string()];
      let desc = format!("lang={lang} rules={}", serde_json::to_string(&yamls).unwrap());
      announce_and_apply(&mut out, &proj, &base_args, &desc, &|rid: &str| rules.iter().any(|fr| fr.yaml.starts_with(&format!("id: {rid}\n")) && fr.expands), &mut sampled);
    }
  }
  special_layouts(o, &mut out, &mut sampled);
  out.finish("temporary trees (nested directories, LF and CRLF files, a non-source file) of corpus sources with 1-3 fix rules cut from one of the files (string and object form, empty / wrapping / multi-byte templates, \
              expandStart / expandEnd); `sg scan -r R --json=stream` then `sg scan -r R -U` on the same tree, twice in a row: every file must equal the original with the announced edits spliced in announced order \
              (dropping an edit that overlaps an earlier accepted one), other files byte-identical, `Applied N changes` = number of spliced edits; every announced edit must start at the matched node and stay inside it \
              unless the fix configures an expansion; plus fixed layouts: adjacent edits with no byte between them (statement lists, list elements with expandEnd), and a project (sgconfig.yml, rule directory, unused-suppression rule active) whose files carry used and unused `ast-grep-ignore` comments on fixable findings. non-trivial = at least one edit was applied");
  let _ = Value::Null;
}

/// layouts that random trees rarely produce
fn special_layouts(o: &Opts, out: &mut Out, sampled: &mut bool) {
  // ---- adjacent edits: ranges with no byte between them
  for (li, (lang, ext)) in [("JavaScript", "js"), ("TypeScript", "ts")].iter().enumerate() {
    let base = fresh_dir(&o.out, &format!("adj_{li}"));
    let proj = base.join("t");
    std::fs::create_dir_all(&proj).unwrap();
    std::fs::write(proj.join(format!("adj.{ext}")), "foo();bar();baz();\nlet l = [a,b,c];\nqux(x,y,z)\n").unwrap();
    let yamls = [
      format!("id: stmt\nlanguage: {lang}\nmessage: m\nrule:\n  kind: expression_statement\n  pattern: $F();\nfix: \"$F(1);\"\n"),
      format!("id: elem\nlanguage: {lang}\nmessage: m\nrule:\n  kind: identifier\n  inside: {{kind: array}}\nfix:\n  template: \"\"\n  expandEnd: {{regex: ','}}\n"),
      format!("id: arg\nlanguage: {lang}\nmessage: m\nrule:\n  kind: identifier\n  inside: {{kind: arguments}}\nfix:\n  template: \"v\"\n  expandEnd: {{regex: ','}}\n"),
    ];
    let rp = base.join("rules.yml");
    std::fs::write(&rp, yamls.join("---\n")).unwrap();
    let rabs = std::fs::canonicalize(&rp).unwrap();
    let args: Vec<String> = vec!["scan".into(), "-r".into(), rabs.to_string_lossy().to_string()];
    announce_and_apply(out, &proj, &args, &format!("adjacent-edits lang={lang}"), &|rid: &str| rid != "stmt", sampled);
    out.count("layout:adjacent-edits");
  }
  // ---- a chain of partially overlapping edits: the replaced range of each finding reaches into its neighbours
  //      (expansion on both sides), so B overlaps the accepted A and is dropped, C overlaps only the dropped B and is
  //      written, D overlaps C ...
  for (li, (lang, ext)) in [("JavaScript", "js"), ("TypeScript", "ts")].iter().enumerate() {
    let base = fresh_dir(&o.out, &format!("chain_{li}"));
    let proj = base.join("t");
    std::fs::create_dir_all(&proj).unwrap();
    std::fs::write(proj.join(format!("chain.{ext}")), "let l = [x, legacy_a, legacy_b, legacy_c, y];\nlet m = [p, legacy_d, legacy_e, legacy_f, legacy_g, legacy_h, q];\nlet n = [legacy_i, legacy_j];\n").unwrap();
    let yamls = [format!("id: legacy\nlanguage: {lang}\nmessage: m\nrule:\n  kind: identifier\n  regex: ^legacy_\n  inside: {{kind: array}}\nfix:\n  template: \"\"\n  expandStart: {{regex: ','}}\n  expandEnd: {{regex: ','}}\n")];
    let rp = base.join("rules.yml");
    std::fs::write(&rp, yamls.join("---\n")).unwrap();
    let rabs = std::fs::canonicalize(&rp).unwrap();
    let args: Vec<String> = vec!["scan".into(), "-r".into(), rabs.to_string_lossy().to_string()];
    announce_and_apply(out, &proj, &args, &format!("chain-of-overlapping-edits lang={lang}"), &|_rid: &str| true, sampled);
    out.count("layout:chain-of-overlapping-edits");
  }
  // ---- project mode with suppression comments on fixable findings (the unused-suppression rule has a fix too)
  for (li, (lang, ext, cmt)) in [("JavaScript", "js", "//"), ("TypeScript", "ts", "//"), ("Python", "py", "#")].iter().enumerate() {
    let base = fresh_dir(&o.out, &format!("proj_{li}"));
    let proj = base.join("p");
    std::fs::create_dir_all(proj.join("rules")).unwrap();
    std::fs::create_dir_all(proj.join("src")).unwrap();
    std::fs::write(proj.join("sgconfig.yml"), "ruleDirs:\n  - rules\n").unwrap();
    std::fs::write(proj.join("rules/fx.yml"), format!("id: fx\nlanguage: {lang}\nmessage: m\nseverity: warning\nrule:\n  pattern: foo($A)\nfix: qux($A)\n")).unwrap();
    std::fs::write(proj.join("rules/fy.yml"), format!("id: fy\nlanguage: {lang}\nmessage: m\nseverity: warning\nrule:\n  pattern: bar($A)\n")).unwrap();
    let semi = if *ext == "py" { "" } else { ";" };
    let src = format!("foo(1){semi}\n{cmt} ast-grep-ignore\nfoo(2){semi}\n{cmt} ast-grep-ignore: fx\nfoo(3){semi}\nbar(4){semi} {cmt} ast-grep-ignore: other\n{cmt} ast-grep-ignore: fx\nbaz(5){semi}\nfoo(6){semi} {cmt} ast-grep-ignore: fy\n");
    std::fs::write(proj.join(format!("src/a.{ext}")), &src).unwrap();
    std::fs::write(proj.join(format!("src/clean.{ext}")), format!("baz(0){semi}\n")).unwrap();
    let args: Vec<String> = vec!["scan".into()];
    announce_and_apply(out, &proj, &args, &format!("project-with-suppressions lang={lang}"), &|_rid: &str| false, sampled);
    out.count("layout:project-suppressions");
  }
  // ---- files that begin with bytes no edit touches: a UTF-8 byte order mark, leading blank lines, a shebang
  for (li, prefix) in ["\u{feff}", "\n\n  \n", "#!/usr/bin/env node\n", "\u{feff}\r\n"].iter().enumerate() {
    let base = fresh_dir(&o.out, &format!("lead_{li}"));
    let proj = base.join("t");
    std::fs::create_dir_all(&proj).unwrap();
    std::fs::write(proj.join("lead.js"), format!("{prefix}foo(1);\n// héllo\nlet x = foo(2, foo(3));\n")).unwrap();
    let rp = base.join("rules.yml");
    std::fs::write(&rp, "id: fx\nlanguage: JavaScript\nmessage: m\nrule:\n  pattern: foo($$$A)\nfix: bar($$$A)\n").unwrap();
    let rabs = std::fs::canonicalize(&rp).unwrap();
    let args: Vec<String> = vec!["scan".into(), "-r".into(), rabs.to_string_lossy().to_string()];
    announce_and_apply(out, &proj, &args, &format!("leading-bytes layout {li}"), &|_rid: &str| false, sampled);
    let args2: Vec<String> = vec!["run".into(), "-p".into(), "foo($$$A)".into(), "-r".into(), "baz($$$A)".into(), "-l".into(), "js".into()];
    announce_and_apply(out, &proj, &args2, &format!("leading-bytes layout {li} (run)"), &|_rid: &str| false, sampled);
    out.count("layout:leading-bytes");
  }
}
