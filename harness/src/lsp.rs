//! In-process language server (built like crates/lsp/tests/basic.rs): send a list of JSON-RPC
//! messages one after the other, answer the server's own requests, collect everything it sends.
use ast_grep_config::{RuleCollection, RuleConfig};
use ast_grep_language::SupportLang;
use ast_grep_lsp::{Backend, LspService, Server};
use serde_json::{json, Value};
use std::time::Duration;
use tokio::io::{duplex, AsyncReadExt, AsyncWriteExt};

fn frame(v: &Value) -> Vec<u8> {
  let body = v.to_string();
  format!("Content-Length: {}\r\n\r\n{}", body.len(), body).into_bytes()
}

/// split complete frames off the front of `buf`
fn take_frames(buf: &mut Vec<u8>) -> Vec<Value> {
  let mut out = vec![];
  loop {
    let Some(h) = buf.windows(4).position(|w| w == b"\r\n\r\n") else { break };
    let head = String::from_utf8_lossy(&buf[..h]).to_string();
    let Some(len) = head.lines().find_map(|l| l.strip_prefix("Content-Length: ").and_then(|x| x.trim().parse::<usize>().ok())) else { break };
    if buf.len() < h + 4 + len {
      break;
    }
    let body = buf[h + 4..h + 4 + len].to_vec();
    buf.drain(..h + 4 + len);
    if let Ok(v) = serde_json::from_slice::<Value>(&body) {
      out.push(v);
    }
  }
  out
}

/// returns, per input message, the messages the server sent before going quiet
pub fn run_lsp(rules: Vec<RuleConfig<SupportLang>>, base: &std::path::Path, msgs: &[Value]) -> Result<Vec<Vec<Value>>, String> {
  let rt = tokio::runtime::Builder::new_multi_thread().worker_threads(2).enable_all().build().map_err(|e| e.to_string())?;
  let base = base.to_path_buf();
  let msgs: Vec<Value> = msgs.to_vec();
  rt.block_on(async move {
    let rc: RuleCollection<SupportLang> = RuleCollection::try_new(rules).map_err(|e| e.to_string())?;
    let rc_result: std::result::Result<_, String> = Ok(rc);
    let (service, socket) = LspService::build(|client| Backend::new(client, base, rc_result)).finish();
    let (mut req_client, req_server) = duplex(1 << 20);
    let (resp_server, mut resp_client) = duplex(1 << 20);
    tokio::spawn(Server::new(req_server, resp_server, socket).serve(service));
    let mut all: Vec<Vec<Value>> = vec![];
    let mut buf: Vec<u8> = vec![];
    let init = json!({"jsonrpc": "2.0", "id": 1, "method": "initialize", "params": {"capabilities": {"textDocument": {"codeAction": {"codeActionLiteralSupport": {"codeActionKind": {"valueSet": ["quickfix", "source.fixAll"]}}}}}}});
    let inited = json!({"jsonrpc": "2.0", "method": "initialized", "params": {}});
    let mut seq: Vec<(Value, bool)> = vec![(init, false), (inited, false)];
    seq.extend(msgs.into_iter().map(|m| (m, true)));
    for (m, keep) in seq {
      req_client.write_all(&frame(&m)).await.map_err(|e| e.to_string())?;
      let mut got = vec![];
      let mut quiet = 0;
      let mut tmp = vec![0u8; 1 << 16];
      while quiet < 2 {
        match tokio::time::timeout(Duration::from_millis(120), resp_client.read(&mut tmp)).await {
          Ok(Ok(n)) if n > 0 => {
            quiet = 0;
            buf.extend_from_slice(&tmp[..n]);
            for v in take_frames(&mut buf) {
              // a request from the server (it has an id and a method): answer with null
              if v.get("id").is_some() && v.get("method").is_some() {
                let reply = json!({"jsonrpc": "2.0", "id": v["id"].clone(), "result": null});
                req_client.write_all(&frame(&reply)).await.map_err(|e| e.to_string())?;
              }
              got.push(v);
            }
          }
          Ok(Ok(_)) => break,
          Ok(Err(e)) => return Err(e.to_string()),
          Err(_) => quiet += 1,
        }
      }
      if keep {
        all.push(got);
      }
    }
    Ok(all)
  })
}

pub fn did_open(uri: &str, lang_id: &str, version: i64, text: &str) -> Value {
  json!({"jsonrpc": "2.0", "method": "textDocument/didOpen", "params": {"textDocument": {"uri": uri, "languageId": lang_id, "version": version, "text": text}}})
}
pub fn did_change(uri: &str, version: i64, text: &str) -> Value {
  json!({"jsonrpc": "2.0", "method": "textDocument/didChange", "params": {"textDocument": {"uri": uri, "version": version}, "contentChanges": [{"text": text}]}})
}
pub fn did_close(uri: &str) -> Value {
  json!({"jsonrpc": "2.0", "method": "textDocument/didClose", "params": {"textDocument": {"uri": uri}}})
}

/// (uri, version, diagnostics) of every publishDiagnostics among the messages
pub fn published(msgs: &[Value]) -> Vec<(String, i64, Vec<Value>)> {
  msgs.iter().filter(|m| m["method"] == "textDocument/publishDiagnostics").map(|m| {
    let p = &m["params"];
    (p["uri"].as_str().unwrap_or("").to_string(), p["version"].as_i64().unwrap_or(-1), p["diagnostics"].as_array().cloned().unwrap_or_default())
  }).collect()
}
