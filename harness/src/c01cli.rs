//! C01, CLI part: `sg run` and `sg scan` report the same set as the library search on the same files
//! (kind dispatch, literal prefilter under every strictness, file walking).  Correspondence only.
use crate::c01::{load_rules, rule_yaml};
use crate::cli::{fresh_dir, json_lines, rec_key, sg};
use crate::corpus;
use crate::dump::{strict_of, STRICT_NAMES};
use crate::out::Out;
use crate::rng::Rng;
use crate::rulegen::harvest;
use crate::Opts;
use ast_grep_core::matcher::MatcherExt;
use ast_grep_core::Pattern;
use ast_grep_language::SupportLang;
use serde_json::json;
use std::panic::{catch_unwind, AssertUnwindSafe};

pub fn run(o: &Opts) {
  let mut out = Out::new(&o.out);
  let mut rng = Rng::new(o.seed ^ 0xc01c);
  let rounds = if o.thorough { 10 } else { 2 };
  let mut sampled = false;
  let langs: Vec<SupportLang> = SupportLang::all_langs().to_vec();
  for lang in langs {
    if lang == SupportLang::Html {
      continue; // injected languages are covered by C18's stream
    }
    let ext = corpus::lang_ext(lang);
    for round in 0..rounds {
      let dir = fresh_dir(&o.out, &format!("p_{lang}_{round}"));
      let srcs = corpus::sources(lang, &mut rng, 4, 700);
      if srcs.is_empty() {
        continue;
      }
      let mut files = vec![];
      for (i, s) in srcs.iter().enumerate() {
        let rel = if i % 2 == 0 { format!("f{i}.{ext}") } else { format!("sub/dir{i}/g{i}.{ext}") };
        let p = dir.join(&rel);
        std::fs::create_dir_all(p.parent().unwrap()).unwrap();
        std::fs::write(&p, s).unwrap();
        files.push((rel, s.clone()));
      }
      // ingredients from ONE file, so that other files often lack the pattern's tokens
      let sg0 = corpus::parse(lang, &files[0].1);
      let nodes0 = corpus::all_nodes(sg0.root());
      let ing = harvest(lang, &nodes0, &mut rng);
      // ---- sg run -p
      for _ in 0..(if o.thorough { 6 } else { 4 }) {
        if ing.patterns.is_empty() {
          break;
        }
        let (ptext, sel) = rng.pick(&ing.patterns).clone();
        if sel.is_some() || ptext.starts_with('-') {
          continue;
        }
        let si = rng.below(5);
        let Ok(Ok(p)) = catch_unwind(AssertUnwindSafe(|| Pattern::try_new(&ptext, lang))) else { continue };
        let p = p.with_strictness(strict_of(si));
        let lname = lang.to_string();
        let r = sg(&dir, &["run", "-p", &ptext, "-l", &lname, "--strictness", STRICT_NAMES[si], "--json=stream", "."], None, 30);
        out.checked();
        let what = format!("sg run -p {ptext:?} -l {lang} --strictness {} on {} files", STRICT_NAMES[si], files.len());
        if r.timed_out || !matches!(r.code, Some(0) | Some(1)) {
          out.oracle_fail("", &format!("{what}: exit {:?} timed_out={} stderr={}", r.code, r.timed_out, r.stderr.chars().take(300).collect::<String>()), json!({"stream": "c01cli", "dir": dir.to_string_lossy()}));
          continue;
        }
        let Ok(recs) = json_lines(&r.stdout) else {
          out.oracle_fail("", &format!("{what}: output is not one JSON object per line"), json!({"stream": "c01cli"}));
          continue;
        };
        let mut got: Vec<(String, usize, usize)> = recs.iter().map(|x| { let k = rec_key(x); (k.0, k.2, k.3) }).collect();
        got.sort();
        let mut want = vec![];
        for (rel, s) in &files {
          let g = corpus::parse(lang, s);
          for n in g.root().dfs() {
            if p.match_node(n.clone()).is_some() {
              want.push((rel.clone(), n.range().start, n.range().end));
            }
          }
        }
        want.sort();
        out.count(if want.is_empty() { "run:no-match" } else { "run:matches" });
        if !want.is_empty() {
          out.nontrivial(&(lname.clone(), ptext.clone(), si, round));
        }
        if got != want {
          out.oracle_fail("", &format!("{what}: the CLI reports {} matches, matching every node of every file with the library gives {}; first difference: {:?}", got.len(), want.len(),
            got.iter().find(|x| !want.contains(x)).or_else(|| want.iter().find(|x| !got.contains(x)))),
            json!({"stream": "c01cli-run", "lang": lname, "pattern": ptext, "strictness": STRICT_NAMES[si], "files": files}));
        }
        if !sampled && !want.is_empty() {
          sampled = true;
          out.sample(json!({"cmd": what, "matches": want.len()}));
        }
        // --stdin on the first file must agree with the file run
        let r2 = sg(&dir, &["run", "-p", &ptext, "-l", &lname, "--strictness", STRICT_NAMES[si], "--json=stream", "--stdin"], Some(&files[0].1), 30);
        if let Ok(recs2) = json_lines(&r2.stdout) {
          let mut g2: Vec<(usize, usize)> = recs2.iter().map(|x| { let k = rec_key(x); (k.2, k.3) }).collect();
          g2.sort();
          let w2: Vec<(usize, usize)> = want.iter().filter(|w| w.0 == files[0].0).map(|w| (w.1, w.2)).collect();
          out.checked();
          if g2 != w2 {
            out.oracle_fail("", &format!("{what} --stdin: {} matches, library {}", g2.len(), w2.len()), json!({"stream": "c01cli-stdin", "lang": lname, "pattern": ptext, "source": files[0].1}));
          }
        }
      }
      // ---- sg scan -r
      let n = 1 + rng.below(3);
      let mut yamls = vec![];
      for i in 0..n {
        let body = if rng.chance(1, 2) && !ing.kinds.is_empty() {
          format!("  kind: {}\n", rng.pick(&ing.kinds))
        } else if !ing.patterns.is_empty() {
          format!("  pattern: {}\n", serde_json::to_string(&rng.pick(&ing.patterns).0).unwrap())
        } else {
          continue;
        };
        yamls.push(rule_yaml(&format!("rule{i}"), lang, &body, None));
      }
      let Some(rules) = load_rules(&yamls) else { continue };
      // the rule file lives outside the scanned tree (it is itself a YAML/text file)
      let rule_path = o.out.join(format!("rules_{lang}_{round}.yml"));
      std::fs::write(&rule_path, yamls.join("---\n")).unwrap();
      let rule_abs = std::fs::canonicalize(&rule_path).unwrap();
      let r = sg(&dir, &["scan", "-r", rule_abs.to_str().unwrap(), "--json=stream", "."], None, 30);
      out.checked();
      let what = format!("sg scan -r (rules: {})", serde_json::to_string(&yamls).unwrap());
      if r.timed_out || !matches!(r.code, Some(0) | Some(1)) {
        out.oracle_fail("", &format!("{what}: exit {:?} timed_out={} stderr={}", r.code, r.timed_out, r.stderr.chars().take(300).collect::<String>()), json!({"stream": "c01cli"}));
        continue;
      }
      let Ok(recs) = json_lines(&r.stdout) else { continue };
      let mut got: Vec<(String, String, usize, usize)> = recs.iter().map(rec_key).collect();
      got.sort();
      let mut want = vec![];
      for (rel, s) in &files {
        let g = corpus::parse(lang, s);
        for rule in &rules {
          for nd in g.root().dfs() {
            if rule.matcher.match_node(nd.clone()).is_some() {
              want.push((rel.clone(), rule.id.clone(), nd.range().start, nd.range().end));
            }
          }
        }
      }
      want.sort();
      out.count(if want.is_empty() { "scan:no-finding" } else { "scan:findings" });
      if got != want {
        out.oracle_fail("", &format!("{what}: the CLI reports {} findings, every rule on every node of every file gives {}; first difference: {:?}", got.len(), want.len(),
          got.iter().find(|x| !want.contains(x)).or_else(|| want.iter().find(|x| !got.contains(x)))),
          json!({"stream": "c01cli-scan", "lang": lang.to_string(), "rules": yamls, "files": files}));
      }
    }
  }
  // ---- host documents: HTML pages whose embedded regions of ONE language carry different labels
  //      (`<script>`, `<script lang="javascript">`, `lang=ts`, `lang="typescript"`, two <style> blocks):
  //      every region must be searched — by `sg run` with -l, with the language inferred, and by `sg scan`
  {
    let dir = fresh_dir(&o.out, "html_regions");
    let page = "<html><head>\n<style>a { color: red; }</style>\n<style type=\"text/css\">b { color: blue; }</style>\n</head><body>\n<script>alert(1); foo(alert(11))</script>\n<script lang=\"javascript\">alert(2)</script>\n<script lang=ts>alert(3)</script>\n<script lang=\"typescript\">alert(4); let x: number = alert(44)</script>\n<script type=\"module\">alert(5)</script>\n</body></html>\n";
    std::fs::write(dir.join("a.html"), page).unwrap();
    std::fs::create_dir_all(dir.join("sub")).unwrap();
    std::fs::write(dir.join("sub/b.html"), page.replace("alert(", "alert(7")).unwrap();
    std::fs::write(dir.join("rule.yml"), "id: no-alert\nlanguage: JavaScript\nrule:\n  pattern: alert($A)\n---\nid: no-alert-ts\nlanguage: TypeScript\nrule:\n  pattern: alert($A)").unwrap();
    // expected from the text: every alert(..) in a js-labelled region for js, in a ts-labelled region for ts
    let cases: Vec<(Vec<&str>, usize)> = vec![
      (vec!["run", "-p", "alert($A)", "-l", "js", "--json=stream", "."], 8),       // 1, 11, 2, 5 per page x 2 pages
      (vec!["run", "-p", "alert($A)", "-l", "ts", "--json=stream", "."], 6),       // 3, 4, 44 per page
      (vec!["scan", "-r", "rule.yml", "--json=stream", "."], 14),
    ];
    for (args, want) in cases {
      let r = sg(&dir, &args, None, 60);
      out.checked();
      out.count("cli:html-regions");
      let got = json_lines(&r.stdout).unwrap_or_default().len();
      out.nontrivial(&format!("{args:?}"));
      if got != want {
        out.oracle_fail("", &format!("sg {} on two HTML pages whose embedded regions of one language carry different labels: {got} matches, the text has {want}", args.join(" ")),
          json!({"stream": "c01cli-html", "stdout": r.stdout.chars().take(500).collect::<String>()}));
      }
    }
  }
  out.finish("temporary directory trees (nested directories, 4 files per tree) of corpus sources; patterns cut from ONE of the files so that other files lack their tokens, every strictness level: \
              `sg run -p .. --strictness .. --json=stream` on the tree and `--stdin` on one file, and `sg scan -r` with 1-3 rules, against matching every node of every file with the library matcher. \
              non-trivial = the pattern matches somewhere");
}
