//! C09 — all front ends report the same findings for the same rules and text; the language server
//! converges to the newest text.  Reference = every active rule tried on every node with the library.
use crate::c01::load_rules;
use crate::cli::{fresh_dir, json_lines, sg};
use crate::corpus;
use crate::lsp::{did_change, did_close, did_open, published, run_lsp};
use crate::out::Out;
use crate::rng::Rng;
use crate::rulegen::{harvest, vars_of};
use crate::val::Val;
use crate::{vl, Opts};
use ast_grep_config::Severity;
use ast_grep_core::matcher::MatcherExt;
use ast_grep_language::SupportLang;
use serde_json::{json, Value};

type Finding = (String, usize, usize, usize, usize, String); // rule id, start line, start col, end line, end col, message

fn from_json(rec: &Value) -> Finding {
  let r = &rec["range"];
  (rec["ruleId"].as_str().unwrap_or("").to_string(), r["start"]["line"].as_u64().unwrap_or(0) as usize, r["start"]["column"].as_u64().unwrap_or(0) as usize,
   r["end"]["line"].as_u64().unwrap_or(0) as usize, r["end"]["column"].as_u64().unwrap_or(0) as usize, rec["message"].as_str().unwrap_or("").to_string())
}

pub fn run(o: &Opts) {
  let mut out = Out::new(&o.out);
  let mut rng = Rng::new(o.seed ^ 0xc09);
  let rounds = if o.thorough { 8 } else { 4 };
  let mut sampled = false;
  let langs = [SupportLang::TypeScript, SupportLang::JavaScript, SupportLang::Python, SupportLang::Rust, SupportLang::Go, SupportLang::Java, SupportLang::Ruby, SupportLang::Css];
  let nl = if o.thorough { langs.len() } else { 3 };
  for k in 0..nl {
    // the first language is always TypeScript (it carries the constructed layouts below), the others rotate with the seed
    let lang = if k == 0 { SupportLang::TypeScript } else { langs[(o.seed as usize + k * 3) % langs.len()] };
    let ext = corpus::lang_ext(lang);
    for round in 0..rounds {
      let dir = fresh_dir(&o.out, &format!("f_{lang}_{round}"));
      let srcs = corpus::clean_sources(lang, &mut rng, 1, 500);
      let Some(src) = srcs.first().cloned() else { continue };
      // texts with multi-byte characters in front of findings: LSP columns are character columns too
      let src = if rng.chance(1, 2) { format!("/* é日😀 */ {src}") } else { src };
      // a text may begin with a byte order mark: every front end must count it (or not) alike
      let src = if round % 3 == 1 { out.count("source:starts-with-BOM"); format!("\u{feff}{src}") } else { src };
      // in the last round of a JavaScript / TypeScript language: fix rules whose matches NEST (see below)
      let nested = round + 1 == rounds && matches!(lang, SupportLang::TypeScript | SupportLang::JavaScript);
      let src = if nested { "console.log(console.log(1))\nlet ok = a && b && c\nfoo(foo(foo(2)), console.log(3))\n".to_string() } else { src };
      // in the round before: findings whose OWN text holds multi-byte characters on one line (end column = start column +
      // characters, not bytes), the first of them on the first line of a file that starts with a byte order mark
      let wide = round + 2 == rounds && matches!(lang, SupportLang::TypeScript | SupportLang::JavaScript);
      let src = if wide { "\u{feff}console.log('é日😀', 'ü')\nlet s = 'ünï'; console.log(s, 'añb')\n".to_string() } else { src };
      let g = corpus::parse(lang, &src);
      let nodes = corpus::all_nodes(g.root());
      let ing = harvest(lang, &nodes, &mut rng);
      let mut yamls = vec![];
      let nrules = 1 + rng.below(3);
      for i in 0..nrules {
        // patterns that really match somewhere in this source, so that the front ends have something to agree on
        let cands: Vec<&(String, Option<String>)> = ing.patterns.iter().filter(|p| p.1.is_none() && !p.0.contains('\n')
          && std::panic::catch_unwind(|| ast_grep_core::Pattern::try_new(&p.0, lang).map(|pt| nodes.iter().any(|n| pt.match_node(n.clone()).is_some())).unwrap_or(false)).unwrap_or(false)).collect();
        if cands.is_empty() {
          break;
        }
        let mut pt = rng.pick(&cands).0.clone();
        // sometimes a literal pattern (the text of a node it matches): a finding that binds no variable at all
        if rng.chance(1, 3) {
          if let Ok(p0) = ast_grep_core::Pattern::try_new(&pt, lang) {
            if let Some(n) = nodes.iter().find(|n| n.is_named() && !n.text().contains('$') && !n.text().contains('\n') && n.range().len() < 80 && p0.match_node((*n).clone()).is_some()) {
              let lit = n.text().to_string();
              if ast_grep_core::Pattern::try_new(&lit, lang).map(|q| nodes.iter().any(|m| q.match_node(m.clone()).is_some())).unwrap_or(false) {
                pt = lit;
              }
            }
          }
        }
        let var = vars_of(&pt).first().cloned();
        // a message may name a variable the match did not bind (it expands to nothing, in every front end)
        let msg = match (&var, if var.is_none() && rng.chance(2, 3) { 2 } else { rng.below(4) }) {
          (Some(v), 0) => format!("found ${v} here"),
          (Some(v), 1) => format!("${v}"),
          (_, 2) => format!("unbound $NOPE and $$$ALSO in message {i}"),
          _ => format!("plain message {i}"),
        };
        let sev = *rng.pick(&["error", "warning", "info", "hint", "warning", "off"]);
        let fix = if rng.chance(1, 3) { "fix: FIXED\n" } else { "" };
        yamls.push(format!("id: r{i}\nlanguage: {lang}\nseverity: {sev}\nmessage: {}\nrule:\n  pattern: {}\n{fix}", serde_json::to_string(&msg).unwrap(), serde_json::to_string(&pt).unwrap()));
      }
      // in the last round of a JavaScript / TypeScript language: fix rules whose matches NEST (a match inside the
      // previous match of the same rule, a match of one fix rule inside the match of another): every front end
      // lists all of them
      let yamls = if nested {
        out.count("layout:nested-matches-of-fix-rules");
        vec![format!("id: r0\nlanguage: {lang}\nseverity: warning\nmessage: log $A\nrule:\n  pattern: console.log($A)\nfix: logger.debug($A)\n"),
              format!("id: r1\nlanguage: {lang}\nseverity: error\nmessage: and\nrule:\n  pattern: $A && $B\nfix: $B && $A\n"),
              format!("id: r2\nlanguage: {lang}\nseverity: info\nmessage: foo\nrule:\n  pattern: foo($$$A)\nfix: bar($$$A)\n")]
      } else if wide {
        out.count("layout:multi-byte-findings-after-BOM");
        vec![format!("id: r0\nlanguage: {lang}\nseverity: warning\nmessage: log $A\nrule:\n  pattern: console.log($A, $B)\n"),
              format!("id: r1\nlanguage: {lang}\nseverity: error\nmessage: wide literal\nrule:\n  pattern: \"'é日😀'\"\n"),
              format!("id: r2\nlanguage: {lang}\nseverity: info\nmessage: str $S\nrule:\n  kind: string\n  pattern: $S\n")]
      } else { yamls };
      let Some(rules) = load_rules(&yamls) else {
        out.count("rules:rejected");
        continue;
      };
      if rules.is_empty() {
        continue;
      }
      // ---- reference
      let mut want: Vec<Finding> = vec![];
      for r in &rules {
        if matches!(r.severity, Severity::Off) {
          continue;
        }
        for n in &nodes {
          if let Some(nm) = r.matcher.match_node(n.clone()) {
            let (s, e) = (nm.start_pos(), nm.end_pos());
            want.push((r.id.clone(), s.line(), s.column(&*nm), e.line(), e.column(&*nm), r.get_message(&nm)));
          }
        }
      }
      want.sort();
      let file = format!("a.{ext}");
      std::fs::write(dir.join(&file), &src).unwrap();
      let rp = o.out.join(format!("rules_{lang}_{round}.yml"));
      std::fs::write(&rp, yamls.join("---\n")).unwrap();
      let rabs = std::fs::canonicalize(&rp).unwrap();
      let rarg = rabs.to_str().unwrap();
      let what = format!("lang={lang} rules={} source={}", serde_json::to_string(&yamls).unwrap(), serde_json::to_string(&src[..src.char_indices().nth(200).map(|x| x.0).unwrap_or(src.len())]).unwrap());
      out.count(if want.is_empty() { "reference:no-finding" } else { "reference:findings" });
      if !want.is_empty() {
        out.nontrivial(&(lang.to_string(), yamls.clone(), src.len()));
        if !sampled {
          sampled = true;
          out.sample(json!({"lang": lang.to_string(), "rules": yamls, "findings": want.len()}));
        }
      }
      let mut report = |out: &mut Out, front: &str, got: &Vec<Finding>, want: &Vec<Finding>| {
        out.checked();
        if got != want {
          out.oracle_fail("", &format!("{front} lists {} findings, the rules tried on every node give {}; first difference: {:?}; {what}", got.len(), want.len(),
            got.iter().find(|x| !want.contains(x)).or_else(|| want.iter().find(|x| !got.contains(x)))), json!({"stream": "c09", "front": front, "rules": yamls, "source": src}));
        }
      };
      // ---- JSON styles on the file and on stdin
      for style in ["stream", "pretty", "compact"] {
        for stdin in [false, true] {
          let js = format!("--json={style}");
          let mut args = vec!["scan", "-r", rarg, js.as_str()];
          if stdin { args.push("--stdin"); } else { args.push(&file); }
          let r = sg(&dir, &args, if stdin { Some(&src) } else { None }, 30);
          let front = format!("sg scan --json={style}{}", if stdin { " --stdin" } else { "" });
          if r.timed_out || !matches!(r.code, Some(0) | Some(1)) {
            out.checked();
            out.oracle_fail("", &format!("{front}: exit {:?} timed_out={} stderr={}; {what}", r.code, r.timed_out, r.stderr.chars().take(200).collect::<String>()), json!({"stream": "c09", "front": front, "rules": yamls, "source": src}));
            continue;
          }
          let recs = if style == "stream" { json_lines(&r.stdout).unwrap_or_default() } else { serde_json::from_str::<Value>(&r.stdout).ok().and_then(|v| v.as_array().cloned()).unwrap_or_default() };
          let mut got: Vec<Finding> = recs.iter().map(from_json).collect();
          got.sort();
          report(&mut out, &front, &got, &want);
        }
      }
      // ---- the same rules handed over on the command line (--inline-rules) instead of a rule file
      {
        let text = std::fs::read_to_string(&rabs).unwrap_or_default();
        let r = sg(&dir, &["scan", "--inline-rules", &text, "--json=stream", &file], None, 30);
        let mut got: Vec<Finding> = json_lines(&r.stdout).unwrap_or_default().iter().map(from_json).collect();
        got.sort();
        if r.timed_out || !matches!(r.code, Some(0) | Some(1)) {
          out.checked();
          out.oracle_fail("", &format!("sg scan --inline-rules: exit {:?} timed_out={} stderr={}; {what}", r.code, r.timed_out, r.stderr.chars().take(200).collect::<String>()), json!({"stream": "c09", "front": "inline-rules", "rules": yamls, "source": src}));
        } else {
          report(&mut out, "sg scan --inline-rules --json=stream", &got, &want);
        }
      }
      // ---- GitHub format: error / warning / notice lines; hint-level findings are not printed by design
      {
        let r = sg(&dir, &["scan", "-r", rarg, "--format", "github", &file], None, 30);
        let mut got: Vec<(String, usize, usize, String)> = vec![];
        for l in r.stdout.lines() {
          let Some(rest) = l.strip_prefix("::") else { continue };
          let Some((head, message)) = rest.split_once("::") else { continue };
          let get = |k: &str| head.split(',').find_map(|kv| kv.trim_start_matches(|c: char| c.is_alphabetic() && false).split_once('=').filter(|(a, _)| a.ends_with(k)).map(|x| x.1.to_string()));
          let title = get("title").unwrap_or_default();
          let line: usize = get("line").and_then(|x| x.parse().ok()).unwrap_or(0);
          let end: usize = get("endLine").and_then(|x| x.parse().ok()).unwrap_or(0);
          got.push((title, line, end, message.to_string()));
        }
        got.sort();
        let hint_ids: Vec<&String> = rules.iter().filter(|r| matches!(r.severity, Severity::Hint)).map(|r| &r.id).collect();
        let mut w: Vec<(String, usize, usize, String)> = want.iter().filter(|f| !hint_ids.contains(&&f.0) && !f.5.contains('\n')).map(|f| (f.0.clone(), f.1 + 1, f.3 + 1, f.5.clone())).collect();
        w.sort();
        got.retain(|g| !g.3.contains('\n'));
        out.checked();
        if r.timed_out || got != w {
          out.oracle_fail("", &format!("sg scan --format github lists {} annotations, expected {} (hint level excluded); exit {:?}; {what}", got.len(), w.len(), r.code), json!({"stream": "c09", "front": "github", "rules": yamls, "source": src, "stdout": r.stdout.chars().take(400).collect::<String>()}));
        }
      }
      // ---- sg test verdicts: the source is one test case per rule: invalid iff the rule has a finding
      {
        let proj = dir.join("proj");
        std::fs::create_dir_all(proj.join("rules")).unwrap();
        std::fs::create_dir_all(proj.join("tests")).unwrap();
        std::fs::write(proj.join("sgconfig.yml"), "ruleDirs: [rules]\ntestConfigs:\n  - testDir: tests\n").unwrap();
        let mut expect_pass = true;
        let mut n_cases = 0;
        for (i, y) in yamls.iter().enumerate() {
          let r = &rules[i];
          if matches!(r.severity, Severity::Off) {
            continue;
          }
          std::fs::write(proj.join(format!("rules/r{i}.yml")), y).unwrap();
          let has = want.iter().any(|f| f.0 == r.id);
          // sometimes state the verdict the wrong way round: the run must then fail
          let flip = rng.chance(1, 4);
          if flip { expect_pass = false; }
          let key = if has != flip { "invalid" } else { "valid" };
          std::fs::write(proj.join(format!("tests/r{i}-test.yml")), format!("id: r{i}\n{key}:\n  - {}\n", serde_json::to_string(&src).unwrap())).unwrap();
          n_cases += 1;
        }
        if n_cases > 0 {
          let r = sg(&proj, &["test", "--skip-snapshot-tests"], None, 60);
          out.checked();
          let passed = r.code == Some(0);
          if r.timed_out || passed != expect_pass {
            out.oracle_fail("", &format!("sg test: verdicts {} (exit {:?}) but the findings say they should {}; {what}", if passed { "pass" } else { "fail" }, r.code, if expect_pass { "pass" } else { "fail" }),
              json!({"stream": "c09", "front": "sg test", "rules": yamls, "source": src, "stdout": r.stdout.chars().take(400).collect::<String>()}));
          }
        }
      }
      // ---- language server: diagnostics of didOpen
      {
        let uri = format!("file://{}/{}", std::fs::canonicalize(&dir).unwrap().to_string_lossy(), file);
        let owned = load_rules(&yamls).unwrap();
        match run_lsp(owned, &dir, &[did_open(&uri, "x", 1, &src)]) {
          Ok(resp) => {
            let pubs = published(&resp.concat());
            let mut got: Vec<Finding> = pubs.last().map(|p| p.2.iter().filter(|d| d["code"] != "unused-suppression").map(|d| {
              let r = &d["range"];
              (d["code"].as_str().unwrap_or("").to_string(), r["start"]["line"].as_u64().unwrap_or(0) as usize, r["start"]["character"].as_u64().unwrap_or(0) as usize,
               r["end"]["line"].as_u64().unwrap_or(0) as usize, r["end"]["character"].as_u64().unwrap_or(0) as usize, d["message"].as_str().unwrap_or("").to_string())
            }).collect()).unwrap_or_default();
            got.sort();
            report(&mut out, "language server (publishDiagnostics after didOpen)", &got, &want);
          }
          Err(e) => {
            out.checked();
            out.oracle_fail("", &format!("language server failed: {e}; {what}"), json!({"stream": "c09", "front": "lsp"}));
          }
        }
      }
    }
  }
  lsp_histories(o, &mut out, &mut rng);
  out.finish("1-3 pattern rules (messages with meta-variables, severities error/warning/info/hint/off, some with fixes) on corpus sources (half of them with multi-byte text in front): the findings (rule id, line and character column \
              of both ends, message) listed by `sg scan` on the file and on --stdin in the three JSON styles, by --format github (hint level excluded by design), the verdicts of `sg test` (valid = no finding, invalid = at least one, \
              with deliberately wrong verdicts that must fail) and the diagnostics published by the in-process language server, against every active rule tried on every node with the library; plus notification histories for the \
              language server (in-order and stale versions, reopen, close, change after close). non-trivial = the reference has a finding");
}

/// open/change/close histories: the diagnostics last published for an open document are those of the
/// highest-version text received since it was (last) opened, the latest among equal versions
fn lsp_histories(o: &Opts, out: &mut Out, rng: &mut Rng) {
  let n_hist = if o.thorough { 44 } else { 14 };
  let yaml = "id: log\nlanguage: TypeScript\nseverity: warning\nmessage: found $A\nrule:\n  pattern: console.log($A)\n".to_string();
  // text i has i findings
  let texts: Vec<String> = (0..5).map(|i| (0..i).map(|j| format!("console.log({j});\n")).collect::<String>() + "let x = 1;\n").collect();
  let dir = fresh_dir(&o.out, "lsp_hist");
  let base = std::fs::canonicalize(&dir).unwrap();
  for h in 0..n_hist {
    let uris = [format!("file://{}/a{h}.ts", base.to_string_lossy()), format!("file://{}/b{h}.ts", base.to_string_lossy())];
    let mut msgs = vec![];
    let mut hist_val = vec![];
    // the model of the specification, written here independently: per uri, Some((version, text index)) when open
    let mut spec: Vec<Option<(i64, usize)>> = vec![None, None];
    // the first histories are scripted: a change that carries the text the server already holds (type-then-undo,
    // format on save) still raises the version, so a stale change arriving after it must be ignored
    let scripts: [&[(usize, usize, i64, usize)]; 4] = [
      &[(0, 0, 1, 2), (3, 0, 3, 2), (3, 0, 2, 3)],
      &[(0, 0, 5, 3), (3, 0, 5, 3), (3, 0, 4, 0)],
      &[(0, 1, 1, 0), (3, 1, 4, 0), (3, 1, 2, 1), (3, 1, 3, 4)],
      &[(0, 0, 2, 1), (3, 0, 3, 1), (3, 0, 6, 1), (3, 0, 4, 2), (3, 0, 5, 0)],
    ];
    let len = if h < scripts.len() { scripts[h].len() } else { 3 + rng.below(8) };
    for step in 0..len {
      let (op, u, v, t) = if h < scripts.len() { scripts[h][step] } else { (rng.below(8), rng.below(2), 1 + rng.below(6) as i64, rng.below(texts.len())) };
      if h < scripts.len() {
        out.count("lsp:scripted-steps");
      }
      match op {
        0 | 1 => {
          msgs.push(did_open(&uris[u], "typescript", v, &texts[t]));
          hist_val.push(vl![Val::Z(0), Val::n(u), Val::Z(v as i128), Val::n(t)]);
          spec[u] = Some((v, t));
        }
        2 => {
          msgs.push(did_close(&uris[u]));
          hist_val.push(vl![Val::Z(2), Val::n(u), Val::Z(0), Val::n(0)]);
          spec[u] = None;
        }
        _ => {
          msgs.push(did_change(&uris[u], v, &texts[t]));
          hist_val.push(vl![Val::Z(1), Val::n(u), Val::Z(v as i128), Val::n(t)]);
          if let Some((cv, _)) = spec[u] {
            if v >= cv {
              spec[u] = Some((v, t));
            }
          }
        }
      }
    }
    let rules = load_rules(&[yaml.clone()]).unwrap();
    let Ok(resp) = run_lsp(rules, &dir, &msgs) else {
      out.oracle_fail("", "language server failed on a notification history", json!({"stream": "c09-lsp"}));
      continue;
    };
    let pubs = published(&resp.concat());
    out.checked();
    let mut last: Vec<Option<(i64, usize)>> = vec![None, None];
    for (uri, ver, diags) in &pubs {
      if let Some(u) = uris.iter().position(|x| x == uri) {
        last[u] = Some((*ver, diags.len()));
      }
    }
    let mut exp_val = vec![];
    for u in 0..2 {
      if let Some((v, t)) = spec[u] {
        // text index = number of findings
        exp_val.push(vl![Val::Z(v as i128), Val::n(t)]);
        if last[u] != Some((v, t)) {
          out.oracle_fail("", &format!("language server: document {u} is open with highest version {v} (text with {t} findings) but the diagnostics last published for it are {:?}; history {}", last[u], serde_json::to_string(&msgs.iter().map(|m| (m["method"].as_str().unwrap_or("").to_string(), m["params"]["textDocument"]["uri"].as_str().unwrap_or("").chars().rev().take(6).collect::<String>(), m["params"]["textDocument"]["version"].clone())).collect::<Vec<_>>()).unwrap()),
            json!({"stream": "c09-lsp", "history": msgs}));
          break;
        }
      } else {
        exp_val.push(Val::L(vec![]));
      }
    }
    // tie: the model's server state machine on the same history; observed = what the server last published for the open documents
    let obs: Vec<Val> = (0..2).map(|u| match (spec[u], last[u]) { (Some(_), Some((v, n))) => vl![Val::Z(v as i128), Val::n(n)], _ => Val::L(vec![]) }).collect();
    out.case(46, &vl![Val::L(hist_val)], &Val::L(obs), &format!("lsp history {h}"));
    let _ = exp_val;
    out.count("lsp:histories");
    if msgs.len() > 4 {
      out.nontrivial(&("lsp", h, msgs.len()));
    }
  }
}
