//! C04 — "a utility rule whose constraint fails leaves no trace": GLOBAL utility rules (the only utilities
//! that carry constraints) referenced through `matches` inside any / relational / all rules.  The expected
//! result is composed from the implementation's own evaluation of the parts, each started from the
//! environment the reference semantics prescribes (fresh for every candidate / alternative).
use crate::corpus::{self, N};
use crate::out::Out;
use crate::rng::Rng;
use crate::rulegen::vars_of;
use crate::Opts;
use ast_grep_config::{from_str, from_yaml_string, DeserializeEnv, RuleCore, SerializableRuleCore};
use ast_grep_core::matcher::MatcherExt;
use ast_grep_core::meta_var::MetaVarEnv;
use ast_grep_core::{Language, Matcher};
use ast_grep_language::SupportLang;
use serde_json::json;
use std::borrow::Cow;
use std::panic::{catch_unwind, AssertUnwindSafe};

type Env<'a> = MetaVarEnv<'a, corpus::Doc>;

fn q(s: &str) -> String {
  serde_json::to_string(s).unwrap()
}

fn bindings(env: &Env, vars: &[String]) -> Vec<Option<(usize, usize)>> {
  vars.iter().map(|v| env.get_match(v).map(|n| (n.range().start, n.range().end))).collect()
}

fn eval_from<'a>(m: &RuleCore<SupportLang>, n: N<'a>, env0: &Env<'a>) -> Option<Env<'a>> {
  let mut cow = Cow::Borrowed(env0);
  m.match_node_with_env(n, &mut cow)?;
  Some(cow.into_owned())
}

pub fn run(o: &Opts) {
  let mut out = Out::new(&o.out);
  let mut rng = Rng::new(o.seed ^ 0xc049);
  let nsrc = if o.thorough { 6 } else { 3 };
  let per_src = if o.thorough { 60 } else { 25 };
  let mut sampled = false;
  for lang in crate::c02::langs_for(o, 2) {
    let srcs = corpus::clean_sources(lang, &mut rng, nsrc, 900);
    for src in &srcs {
      let sg = corpus::parse(lang, src);
      let nodes = corpus::all_nodes(sg.root());
      if nodes.len() < 6 || nodes.len() > 900 {
        continue;
      }
      let cands: Vec<&N> = nodes.iter().filter(|n| n.is_named() && !n.range().is_empty() && n.range().len() <= 60 && n.children().count() >= 2
        && !n.text().contains('$') && !n.text().contains('\n')).collect();
      if cands.is_empty() {
        continue;
      }
      for _ in 0..per_src {
        let x = (*rng.pick(&cands)).clone();
        let cut = crate::c02::make_cut(&x, &mut rng, false);
        let vars = vars_of(&cut.text);
        let Some(v0) = vars.first().cloned() else { continue };
        let Some((_, hole)) = cut.holes.iter().find(|h| h.0 == v0) else { continue };
        // constraint: a regex on the text bound to the first variable that holds for SOME candidates only
        let t = hole.text().to_string();
        let first = t.chars().next().unwrap_or('a');
        let re = match rng.below(3) {
          0 => format!("^{}", regex::escape(&first.to_string())),
          1 => format!("^.{{{}}}$", t.chars().count()),
          _ => "^[a-m]".to_string(),
        };
        let g_yaml = format!("id: g\nlanguage: {lang}\nrule:\n  pattern: {}\nconstraints:\n  {v0}:\n    regex: {}\n", q(&cut.text), q(&re));
        let core_yaml = format!("rule:\n  pattern: {}\nconstraints:\n  {v0}:\n    regex: {}\n", q(&cut.text), q(&re));
        let shape = rng.below(6);
        // the loader wants a known kind set: anchor the top rule on the kind of a node related to x
        let named_kind = |n: &N| -> Option<String> {
          if n.is_named() && n.kind() != "ERROR" { Some(n.kind().to_string()) } else { None }
        };
        let anchor: Option<String> = match shape {
          0 => None,
          1 => { let d: Vec<N> = x.dfs().skip(1).filter(|d| d.is_named()).collect(); if d.is_empty() { None } else { named_kind(rng.pick(&d)) } }
          2 => { let a: Vec<N> = x.ancestors().collect(); if a.is_empty() { None } else { named_kind(rng.pick(&a)) } }
          3 => { let a: Vec<N> = x.prev_all().filter(|d| d.is_named()).collect(); if a.is_empty() { None } else { named_kind(rng.pick(&a)) } }
          4 => { let a: Vec<N> = x.next_all().filter(|d| d.is_named()).collect(); if a.is_empty() { None } else { named_kind(rng.pick(&a)) } }
          _ => named_kind(&x),
        };
        if shape != 0 && anchor.is_none() {
          continue;
        }
        let kline = anchor.as_ref().map(|k| format!("kind: {k}\n  ")).unwrap_or_default();
        let (top_rule, kind_name): (String, &str) = match shape {
          0 => (format!("any:\n    - matches: g\n    - pattern: {}\n", q(&cut.text)), "any"),
          1 => (format!("{kline}inside:\n    matches: g\n    stopBy: end\n"), "inside"),
          2 => (format!("{kline}has:\n    matches: g\n    stopBy: end\n"), "has"),
          3 => (format!("{kline}precedes:\n    matches: g\n    stopBy: end\n"), "precedes"),
          4 => (format!("{kline}follows:\n    matches: g\n    stopBy: end\n"), "follows"),
          _ => (format!("{kline}not:\n    matches: g\n"), "not"),
        };
        let top_yaml = format!("id: top\nlanguage: {lang}\nrule:\n  {top_rule}");
        let loaded = catch_unwind(AssertUnwindSafe(|| -> Result<_, String> {
          let g = from_str(&g_yaml).map_err(|e| e.to_string())?;
          let globals = DeserializeEnv::<SupportLang>::parse_global_utils(vec![g]).map_err(|e| e.to_string())?;
          let top = from_yaml_string::<SupportLang>(&top_yaml, &globals).map_err(|e| e.to_string())?;
          let gcore: SerializableRuleCore = from_str(&core_yaml).map_err(|e| e.to_string())?;
          let gcore = gcore.get_matcher(DeserializeEnv::new(lang)).map_err(|e| e.to_string())?;
          let pcore: SerializableRuleCore = from_str(&format!("rule:\n  pattern: {}\n", q(&cut.text))).map_err(|e| e.to_string())?;
          let pcore = pcore.get_matcher(DeserializeEnv::new(lang)).map_err(|e| e.to_string())?;
          Ok((top.into_iter().next().ok_or("no rule")?, gcore, pcore))
        }));
        let Ok(Ok((top, gcore, pcore))) = loaded else {
          out.count("load:rejected");
          continue;
        };
        out.count(&format!("shape:{kind_name}"));
        let fresh: Env = MetaVarEnv::new();
        let mut any_match = false;
        let mut g_fail_after_rule_match = false;
        for n in nodes.iter().take(400) {
          let got = catch_unwind(AssertUnwindSafe(|| top.matcher.match_node(n.clone())));
          let Ok(got) = got else {
            out.oracle_fail("", &format!("{lang}: evaluation panics: {top_yaml} / {g_yaml}"), json!({"stream": "c04g", "rule": top_yaml, "util": g_yaml, "source": src}));
            break;
          };
          // expected, composed from the parts
          let seq: Vec<N> = match kind_name {
            "inside" => n.ancestors().collect(),
            "has" => n.dfs().skip(1).collect(),
            "precedes" => n.next_all().collect(),
            "follows" => n.prev_all().collect(),
            _ => vec![],
          };
          let kind_ok = anchor.as_ref().map(|k| n.kind_id() == lang.get_ts_language().id_for_node_kind(k, true)).unwrap_or(true);
          let expected: Option<Vec<Option<(usize, usize)>>> = if !kind_ok { None } else { match kind_name {
            "any" => eval_from(&gcore, n.clone(), &fresh).or_else(|| eval_from(&pcore, n.clone(), &fresh)).map(|e| bindings(&e, &vars)),
            "not" => if eval_from(&gcore, n.clone(), &fresh).is_some() { None } else { Some(vars.iter().map(|_| None).collect()) },
            _ => seq.iter().find_map(|c| eval_from(&gcore, c.clone(), &fresh)).map(|e| bindings(&e, &vars)),
          } };
          if !g_fail_after_rule_match {
            let probe: Vec<N> = if seq.is_empty() { vec![n.clone()] } else { seq.clone() };
            g_fail_after_rule_match = probe.iter().any(|c| eval_from(&pcore, c.clone(), &fresh).is_some() && eval_from(&gcore, c.clone(), &fresh).is_none());
          }
          let got_b = got.as_ref().map(|nm| bindings(nm.get_env(), &vars));
          out.checked();
          if got_b.is_some() {
            any_match = true;
          }
          if got_b != expected {
            out.oracle_fail("", &format!("{lang}: rule with a global utility whose constraint can fail: node {:?} at {}: reported {:?}, composing the parts from fresh environments gives {:?}; rule={} util={}",
              n.text().chars().take(60).collect::<String>(), n.range().start, got_b, expected, q(&top_yaml), q(&g_yaml)),
              json!({"stream": "c04g", "lang": lang.to_string(), "rule": top_yaml, "util": g_yaml, "source": src, "node_start": n.range().start}));
            break;
          }
        }
        if any_match && g_fail_after_rule_match {
          out.nontrivial(&(lang.to_string(), top_yaml.clone(), g_yaml.clone(), src.len()));
          if !sampled {
            sampled = true;
            out.sample(json!({"lang": lang.to_string(), "rule": top_yaml, "global_util": g_yaml}));
          }
        }
        out.count(if g_fail_after_rule_match { "util:constraint-fails-somewhere" } else { "util:constraint-never-decisive" });
      }
    }
  }
  out.finish("a global utility rule g = (pattern cut from the tree, constraint = regex on its first variable that holds for some candidates only) referenced by `matches` inside any / inside / has / precedes / follows / not; \
              the top rule is evaluated with the real loader and evaluator on every node (<=400) and compared (outcome + bindings of the pattern's variables) with the composition of the parts, each evaluated by the \
              implementation from a FRESH environment in the relation's order. non-trivial = the rule matched somewhere and the constraint rejected a candidate its pattern had matched");
}
