//! vh — the Rust side of the correspondence check.  `vh <stream> --seed S --tier T --out DIR`
//! runs the implementation (the crates under /repo, current working tree) on generated
//! inputs, writes tie cases for the Coq model, and evaluates each property's direct oracle.
mod out;
mod rng;
mod val;
mod c20;
mod c07;
mod corpus;
mod dump;
mod c02;
mod c05;
mod rulegen;
mod probe;
mod c04g;
mod c19;
mod c01;
mod c14;
mod cli;
mod c01cli;
mod c16;
mod c18;
mod c06;
mod c10;
mod lsp;
mod c09;
mod c17;
mod c15;
mod c13;
mod c08;
mod c11;
mod c11case;
mod c12;
mod widedoc;

use std::path::PathBuf;

pub struct Opts {
  pub seed: u64,
  pub thorough: bool,
  pub out: PathBuf,
  pub replay: Option<PathBuf>,
  pub extra: Vec<String>,
}

fn main() {
  let args: Vec<String> = std::env::args().collect();
  if args.len() < 2 {
    eprintln!("usage: vh <stream> [--seed N] [--tier quick|thorough] [--out DIR] [--replay FILE]");
    std::process::exit(2);
  }
  let mut o = Opts { seed: 1, thorough: false, out: PathBuf::from("."), replay: None, extra: vec![] };
  let mut i = 2;
  while i < args.len() {
    match args[i].as_str() {
      "--seed" => { o.seed = args[i + 1].parse().unwrap_or(1); i += 2; }
      "--tier" => { o.thorough = args[i + 1] == "thorough"; i += 2; }
      "--out" => { o.out = PathBuf::from(&args[i + 1]); i += 2; }
      "--replay" => { o.replay = Some(PathBuf::from(&args[i + 1])); i += 2; }
      other => { o.extra.push(other.to_string()); i += 1; }
    }
  }
  match args[1].as_str() {
    "probe" => probe::run(&args[2..]),
    "nav" => probe::nav(&args[2..]),
    "navtime" => probe::navtime(&args[2..]),
    "c20" => c20::run(&o),
    "c07" => c07::run(&o),
    "c02" => c02::run_c02(&o),
    "c03" => c02::run_c03(&o),
    "c04x" => c02::run_c04x(&o),
    "c04g" => c04g::run(&o),
    "c19" => c19::run(&o),
    "c01" => c01::run(&o),
    "c14" => c14::run(&o),
    "c01cli" => c01cli::run(&o),
    "c16" => c16::run(&o),
    "c18" => c18::run(&o),
    "c06" => c06::run(&o),
    "c10" => c10::run(&o),
    "c09" => c09::run(&o),
    "c17" => c17::run(&o),
    "c15" => c15::run(&o),
    "c13" => c13::run(&o),
    "c08" => c08::run(&o),
    "c11" => c11::run(&o),
    "c12" => c12::run(&o),
    "c05" => c05::run_stream(&o, "c05"),
    "c04" => c05::run_stream(&o, "c04"),
    s => { eprintln!("unknown stream {s}"); std::process::exit(2); }
  }
}
