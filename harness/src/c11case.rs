//! tie of the `convert` word splitter (coq/theories/Str/Case.v, fid 51) through the public API:
//! rule `{kind: string_fragment, pattern: $A}` + `transform: {B: {convert: {source: $A, toCase: kebab|snake,
//! separatedBy: ..}}}` + `fix: $B`; the words of the output are mapped back to byte ranges of the text.
use crate::corpus;
use crate::out::Out;
use crate::rng::Rng;
use crate::val::Val;
use crate::vl;
use ast_grep_config::from_yaml_string;
use ast_grep_core::replacer::Replacer;
use ast_grep_language::SupportLang;
use serde_json::json;
use std::panic::{catch_unwind, AssertUnwindSafe};

const ALPHABET: &[char] = &[
  'a', 'b', 'z', 'A', 'B', 'Z', 'X', 'M', 'L', '0', '9', '-', '.', '/', ' ', '_', 'É', 'À', 'Ö', 'é', 'ß', 'Ω', 'ω', 'Ж', 'ж', '日', '😀', 'ǅ', 'ª', 'Ⅷ', 'ⓐ', '𝐀', '𝐚',
];
const SEPS: &[(&str, Option<char>)] = &[("caseChange", None), ("dash", Some('-')), ("dot", Some('.')), ("slash", Some('/')), ("space", Some(' ')), ("underscore", Some('_'))];

pub fn run_case_tie(out: &mut Out, rng: &mut Rng, n: usize) {
  for it in 0..n {
    let len = 1 + rng.below(12);
    let mut text: String = (0..len).map(|_| *rng.pick(ALPHABET)).collect();
    if it % 7 == 0 {
      // acronym followed by a lower-case letter of another width
      text = format!("{}{}{}", ["HTTP", "XML", "É", "AÉ", "ÀÖ", "𝐀𝐀", "a", ""][rng.below(8)], ["É", "Z", "Ω", "𝐀", "Ж"][rng.below(5)], ["tat", "é", "ωx", "𝐚b", "ж"][rng.below(5)]);
    }
    // the join character must not occur in the text
    let (to_case, join) = if !text.contains('-') { ("kebabCase", '-') } else if !text.contains('_') { ("snakeCase", '_') } else { continue };
    let seps: Option<Vec<usize>> = if rng.chance(1, 3) { None } else { Some((0..rng.below(4)).map(|_| rng.below(SEPS.len())).collect()) };
    let sep_yaml = match &seps {
      None => String::new(),
      Some(v) => format!("      separatedBy: [{}]\n", v.iter().map(|i| SEPS[*i].0).collect::<Vec<_>>().join(", ")),
    };
    let active: Vec<char> = match &seps {
      None => vec!['-', '.', '/', ' ', '_'],
      Some(v) => v.iter().filter_map(|i| SEPS[*i].1).collect(),
    };
    let yaml = format!("id: r\nlanguage: TypeScript\nrule:\n  kind: string_fragment\n  pattern: $A\ntransform:\n  B:\n    convert:\n      source: $A\n      toCase: {to_case}\n{sep_yaml}fix: $B\n");
    let src = format!("x = \"{text}\"\n");
    let r = catch_unwind(AssertUnwindSafe(|| {
      let configs = from_yaml_string::<SupportLang>(&yaml, &Default::default()).ok()?;
      let cfg = &configs[0];
      let fixer = cfg.matcher.fixer.as_ref()?;
      let sg = corpus::parse(SupportLang::TypeScript, &src);
      let nm = sg.root().find(&cfg.matcher)?;
      if nm.text() != text {
        return None;
      }
      Some(String::from_utf8_lossy(&fixer.generate_replacement(&nm)).to_string())
    }));
    out.checked();
    let input = vl![
      Val::L(text.chars().map(|c| vl![Val::n(c as usize), Val::b(c.is_uppercase()), Val::b(c.is_lowercase())]).collect()),
      Val::opt(seps.as_ref().map(|v| Val::L(v.iter().map(|i| Val::n(*i)).collect())))
    ];
    let human = format!("convert {to_case} separatedBy={:?} on {:?}", seps.as_ref().map(|v| v.iter().map(|i| SEPS[*i].0).collect::<Vec<_>>()), text);
    match r {
      Err(_) => {
        out.count("convert:panic");
        out.case(51, &input, &vl![Val::Z(1)], &human);
        out.oracle_fail("", &format!("{human}: the transformation panics"), json!({"stream": "c11-convert", "yaml": yaml, "source": src}));
      }
      Ok(None) => out.count("convert:not-applicable"),
      Ok(Some(got)) => {
        // words -> byte ranges
        let chars: Vec<(usize, char)> = text.char_indices().collect();
        let mut pos = 0usize;
        let mut ranges = vec![];
        let mut ok = true;
        for w in got.split(join).filter(|w| !w.is_empty()) {
          while pos < chars.len() && active.contains(&chars[pos].1) {
            pos += 1;
          }
          let start = pos;
          let mut acc = String::new();
          while pos < chars.len() && acc.chars().count() < w.chars().count() {
            acc.extend(chars[pos].1.to_lowercase());
            pos += 1;
          }
          if acc != w {
            ok = false;
            break;
          }
          let s = chars[start].0;
          let e = if pos < chars.len() { chars[pos].0 } else { text.len() };
          ranges.push(vl![Val::n(s), Val::n(e)]);
        }
        if ok {
          while pos < chars.len() && active.contains(&chars[pos].1) {
            pos += 1;
          }
          ok = pos == chars.len();
        }
        out.count(if ok { "convert:words-recovered" } else { "convert:words-not-recoverable" });
        if ranges.len() > 1 {
          out.nontrivial(&(text.clone(), got.clone()));
        }
        let expected = if ok { vl![Val::Z(0), Val::L(ranges)] } else { vl![Val::Z(2), Val::str_bytes(&got)] };
        out.case(51, &input, &expected, &format!("{human} gives {got:?}"));
        // direct oracle: nothing but separators is lost
        let kept: String = got.chars().filter(|c| *c != join).collect();
        let want: String = text.chars().filter(|c| !active.contains(c)).flat_map(|c| c.to_lowercase()).collect();
        if kept != want {
          out.oracle_fail("", &format!("{human} gives {got:?}: characters other than separators were lost or invented (letters {kept:?} vs {want:?})"), json!({"stream": "c11-convert", "yaml": yaml, "source": src}));
        }
      }
    }
  }
}
