//! C01 — search is complete: find_all / overlap-free traversal / CombinedScan report exactly the nodes the
//! matcher matches when tried on each node individually.  Library part (the CLI part is in cli.rs).
use crate::c05::{gen_project, gen_witnessed_project, project_wire, DocCtx};
use crate::corpus::{self, N};
use crate::dump::dump_tree_at;
use crate::out::Out;
use crate::rng::Rng;
use crate::rulegen::harvest;
use crate::val::Val;
use crate::{vl, Opts};
use ast_grep_config::{from_yaml_string, CombinedScan, GlobalRules, RuleConfig};
use ast_grep_core::matcher::{KindMatcher, MatcherExt};
use ast_grep_core::traversal::{PostOrder, Visitor};
use ast_grep_core::{Matcher, Pattern};
use ast_grep_language::SupportLang;
use bit_set::BitSet;
use serde_json::json;
use std::panic::{catch_unwind, AssertUnwindSafe};

fn kinds_val(k: &Option<BitSet>) -> Val {
  Val::opt(k.as_ref().map(|s| Val::L(s.iter().map(Val::n).collect())))
}

/// one matcher on one document: find_all, reentrant / overlap-free visitors, against per-node matching
fn check_matcher<M: Matcher<SupportLang>>(out: &mut Out, dc: &DocCtx, m: &M, desc: &str, start: &N) {
  let lang = dc.lang;
  let sub: Vec<N> = start.dfs().collect();
  let reported: Vec<Option<usize>> = sub.iter().map(|n| catch_unwind(AssertUnwindSafe(|| m.match_node(n.clone()).map(|nm| nm.get_node().node_id()))).unwrap_or(None)).collect();
  let hits: Vec<bool> = reported.iter().map(|r| r.is_some()).collect();
  // a bare relational rule reports the node it FOUND (ancestor / descendant / sibling), not the candidate:
  // such matchers are compared through the reported nodes only, the candidate-based checks are skipped
  if sub.iter().zip(&reported).any(|(n, r)| r.is_some() && *r != Some(n.node_id())) {
    let want: Vec<usize> = reported.iter().flatten().copied().collect();
    let found: Vec<usize> = start.find_all(m).map(|nm| nm.get_node().node_id()).collect();
    out.checked();
    out.count("matcher:reports-secondary-node");
    if found != want {
      out.oracle_fail("", &format!("{}: find_all differs from per-node matching (reported nodes): {desc}", dc.lang), json!({"stream": "c01-find_all", "lang": dc.lang.to_string(), "matcher": desc, "source": dc.src}));
    }
    return;
  }
  let brute: Vec<usize> = sub.iter().zip(&hits).filter(|(_, h)| **h).map(|(n, _)| n.node_id()).collect();
  let id = |n: &N| Val::n(dc.td.ids[&n.node_id()]);
  let hit_ids = Val::L(sub.iter().zip(&hits).filter(|(_, h)| **h).map(|(n, _)| id(n)).collect());
  let what = format!("{desc} start={}..{} source={}", start.range().start, start.range().end, serde_json::to_string(&dc.src[..dc.src.char_indices().nth(300).map(|x| x.0).unwrap_or(dc.src.len())]).unwrap());
  // find_all
  let found: Vec<N> = start.find_all(m).map(|nm| nm.get_node().clone()).collect();
  out.checked();
  if found.iter().map(|n| n.node_id()).collect::<Vec<_>>() != brute {
    out.oracle_fail("", &format!("{lang}: find_all reports {} nodes, matching each node individually gives {}: {what}", found.len(), brute.len()),
      json!({"stream": "c01-find_all", "lang": lang.to_string(), "matcher": desc, "source": dc.src, "start": start.range().start}));
  }
  out.case(33, &vl![dc.td.val.clone(), id(start), kinds_val(&m.potential_kinds()), hit_ids.clone()], &Val::L(found.iter().map(|n| id(n)).collect()), &format!("find_all {what}"));
  // visitors
  let re: Vec<N> = Visitor::new(m).reentrant(true).visit(start.clone()).map(|nm| nm.get_node().clone()).collect();
  let non: Vec<N> = Visitor::new(m).reentrant(false).visit(start.clone()).map(|nm| nm.get_node().clone()).collect();
  out.case(32, &vl![dc.td.val.clone(), id(start), Val::b(true), hit_ids.clone()], &Val::L(re.iter().map(|n| id(n)).collect()), &format!("visit reentrant {what}"));
  out.case(32, &vl![dc.td.val.clone(), id(start), Val::b(false), hit_ids.clone()], &Val::L(non.iter().map(|n| id(n)).collect()), &format!("visit overlap-free {what}"));
  out.checked();
  if re.iter().map(|n| n.node_id()).collect::<Vec<_>>() != brute {
    out.oracle_fail("", &format!("{lang}: the reentrant visitor differs from per-node matching: {what}"), json!({"stream": "c01-visit", "lang": lang.to_string(), "matcher": desc, "source": dc.src}));
  }
  // outermost: a match none of whose proper ancestors (inside the start node's subtree) matches
  let hitset: std::collections::HashSet<usize> = brute.iter().copied().collect();
  let outer: Vec<usize> = sub.iter().zip(&hits).filter(|(n, h)| {
    **h && !n.ancestors().take_while(|a| a.range().start >= start.range().start && a.range().end <= start.range().end && (a.node_id() == start.node_id() || a.ancestors().any(|x| x.node_id() == start.node_id())))
      .any(|a| hitset.contains(&a.node_id()))
  }).map(|(n, _)| n.node_id()).collect();
  out.checked();
  if non.iter().map(|n| n.node_id()).collect::<Vec<_>>() != outer {
    out.oracle_fail("", &format!("{lang}: overlap-free traversal reports {} nodes, the outermost matches are {}: {what}", non.len(), outer.len()),
      json!({"stream": "c01-outermost", "lang": lang.to_string(), "matcher": desc, "source": dc.src, "start": start.range().start}));
  }
  // post-order visitor, reentrant: same set in post order
  let post: Vec<usize> = Visitor::new(m).algorithm::<PostOrder>().reentrant(true).visit(start.clone()).map(|nm| nm.get_node().node_id()).collect();
  let mut a = post.clone();
  let mut b = brute.clone();
  a.sort();
  b.sort();
  out.checked();
  if a != b {
    out.oracle_fail("", &format!("{lang}: the post-order visitor reports a different set than per-node matching: {what}"), json!({"stream": "c01-post", "lang": lang.to_string(), "matcher": desc, "source": dc.src}));
  }
  out.count(if brute.is_empty() { "matcher:no-match" } else if outer.len() < brute.len() { "matcher:nested-matches" } else { "matcher:flat-matches" });
  if !brute.is_empty() {
    out.nontrivial(&(lang.to_string(), desc.to_string(), dc.src.len(), start.range().start));
  }
}

pub fn rule_yaml(id: &str, lang: SupportLang, body: &str, fix: Option<&str>) -> String {
  let mut s = format!("id: {id}\nlanguage: {lang}\nmessage: found {id}\nrule:\n{body}");
  if let Some(f) = fix {
    s.push_str(&format!("fix: {}\n", serde_json::to_string(f).unwrap()));
  }
  s
}

pub fn load_rules(yamls: &[String]) -> Option<Vec<RuleConfig<SupportLang>>> {
  let globals = GlobalRules::default();
  let mut v = vec![];
  for y in yamls {
    let r = catch_unwind(AssertUnwindSafe(|| from_yaml_string::<SupportLang>(y, &globals)));
    match r {
      Ok(Ok(mut rs)) if rs.len() == 1 => v.push(rs.remove(0)),
      _ => return None,
    }
  }
  Some(v)
}

/// CombinedScan on one document against per-rule, per-node matching (no suppression comments here: C14)
pub fn check_scan(out: &mut Out, dc: &DocCtx, sg: &corpus::Sg, rules: &[RuleConfig<SupportLang>], what: &str) {
  let lang = dc.lang;
  let refs: Vec<&RuleConfig<SupportLang>> = rules.iter().collect();
  let mut scan = CombinedScan::new(refs);
  let unused_rule = CombinedScan::unused_config(ast_grep_config::Severity::Hint, lang);
  scan.set_unused_suppression_rule(&unused_rule);
  let id = |n: &N| Val::n(dc.td.ids[&n.node_id()]);
  for separate in [false, true] {
    let res = scan.scan(sg, separate);
    let mut got: Vec<(String, Vec<usize>)> = vec![];
    let mut unused: Vec<usize> = vec![];
    for (r, nms) in &res.matches {
      if r.id == "unused-suppression" {
        unused.extend(nms.iter().map(|nm| nm.get_node().node_id()));
      } else {
        got.push((r.id.clone(), nms.iter().map(|nm| nm.get_node().node_id()).collect()));
      }
    }
    for (r, nm) in &res.diffs {
      if r.id == "unused-suppression" {
        unused.push(nm.get_node().node_id());
      } else if let Some(e) = got.iter_mut().find(|e| e.0 == r.id) {
        e.1.push(nm.get_node().node_id());
      } else {
        got.push((r.id.clone(), vec![nm.get_node().node_id()]));
      }
    }
    got.sort();
    // per rule, per node
    let mut want: Vec<(String, Vec<usize>)> = vec![];
    for r in rules {
      let v: Vec<usize> = dc.nodes.iter().filter(|n| r.matcher.match_node((*n).clone()).is_some()).map(|n| n.node_id()).collect();
      if !v.is_empty() {
        want.push((r.id.clone(), v));
      }
    }
    want.sort();
    out.checked();
    let has_supp = dc.src.contains("ast-grep-ignore");
    if !has_supp && got != want {
      out.oracle_fail("", &format!("{lang}: scanning {} rules together (separate_fix={separate}) reports {:?} findings per rule, each rule alone on each node gives {:?}: {what}",
        rules.len(), got.iter().map(|g| (g.0.clone(), g.1.len())).collect::<Vec<_>>(), want.iter().map(|g| (g.0.clone(), g.1.len())).collect::<Vec<_>>()),
        json!({"stream": "c01-scan", "lang": lang.to_string(), "source": dc.src, "what": what}));
    }
    if separate {
      // the separated view against the model's (fid 53): matches per rule, and the diffs in delivery order
      // (skipped when two diffs start at the same offset: the order of equals is unspecified)
      let starts: Vec<usize> = res.diffs.iter().map(|(_, nm)| nm.range().start).collect();
      let mut uniq = starts.clone();
      uniq.sort();
      uniq.dedup();
      if uniq.len() == starts.len() {
        let by_id: std::collections::HashMap<usize, &N> = dc.nodes.iter().map(|n| (n.node_id(), n)).collect();
        let wire_rules = Val::L(rules.iter().map(|r| {
          let hits: Vec<Val> = dc.nodes.iter().filter(|n| r.matcher.match_node((*n).clone()).is_some()).map(|n| id(n)).collect();
          vl![Val::str_bytes(&r.id), Val::b(r.fix.is_some()), kinds_val(&r.matcher.potential_kinds()), Val::L(hits)]
        }).collect());
        let mut ms: Vec<(String, Vec<usize>)> = res.matches.iter().map(|(r, nms)| (r.id.clone(), nms.iter().map(|nm| nm.get_node().node_id()).collect())).collect();
        ms.sort();
        let exp_m = Val::L(ms.iter().map(|(rid, ns)| vl![Val::str_bytes(rid), Val::L(ns.iter().map(|n| id(by_id[n])).collect())]).collect());
        let exp_d = Val::L(res.diffs.iter().map(|(r, nm)| vl![Val::str_bytes(&r.id), id(by_id[&nm.get_node().node_id()])]).collect());
        out.case(53, &vl![Val::str_bytes(dc.src), dc.td.val.clone(), wire_rules], &vl![exp_m, exp_d], &format!("scan, separated view {what}"));
      } else {
        out.count("tie53:skipped(two diffs start at one offset)");
      }
    }
    if !separate {
      let by_id: std::collections::HashMap<usize, &N> = dc.nodes.iter().map(|n| (n.node_id(), n)).collect();
      let wire_rules = Val::L(rules.iter().map(|r| {
        let hits: Vec<Val> = dc.nodes.iter().filter(|n| r.matcher.match_node((*n).clone()).is_some()).map(|n| id(n)).collect();
        vl![Val::str_bytes(&r.id), Val::b(r.fix.is_some()), kinds_val(&r.matcher.potential_kinds()), Val::L(hits)]
      }).collect());
      let exp_found = Val::L(got.iter().map(|(rid, ns)| vl![Val::str_bytes(rid), Val::L(ns.iter().map(|n| id(by_id[n])).collect())]).collect());
      let mut un: Vec<&N> = unused.iter().map(|n| by_id[n]).collect();
      un.sort_by_key(|n| n.range().start);
      out.case(36, &vl![Val::str_bytes(dc.src), dc.td.val.clone(), wire_rules], &vl![exp_found, Val::L(un.iter().map(|n| id(n)).collect())], &format!("scan {what}"));
    }
  }
}

pub fn run(o: &Opts) {
  let mut out = Out::new(&o.out);
  let mut rng = Rng::new(o.seed ^ 0xc01);
  let nsrc = if o.thorough { 6 } else { 2 };
  let per_src = if o.thorough { 30 } else { 12 };
  let mut sampled = false;
  for lang in SupportLang::all_langs().iter().copied() {
    let mut srcs = corpus::sources(lang, &mut rng, nsrc, 900);
    if let Some(s0) = srcs.first().cloned() {
      srcs.push(corpus::mutate(&s0, &mut rng));
    }
    for src in &srcs {
      let sg = corpus::parse(lang, src);
      let root = sg.root();
      let nodes = corpus::all_nodes(root.clone());
      if nodes.len() < 4 || nodes.len() > 800 {
        continue;
      }
      let td = dump_tree_at(&root, 0);
      let dc = DocCtx { lang, src, nodes, td };
      let ing = harvest(lang, &dc.nodes, &mut rng);
      // patterns and kinds directly
      for _ in 0..per_src {
        let start = if rng.chance(2, 3) { root.clone() } else { rng.pick(&dc.nodes).clone() };
        match rng.below(3) {
          0 if !ing.kinds.is_empty() => {
            let k = rng.pick(&ing.kinds).clone();
            if let Ok(m) = KindMatcher::try_new(&k, lang) {
              check_matcher(&mut out, &dc, &m, &format!("kind {k}"), &start);
            }
          }
          1 if !ing.patterns.is_empty() => {
            let (t, sel) = rng.pick(&ing.patterns).clone();
            let p = catch_unwind(AssertUnwindSafe(|| match &sel { Some(s) => Pattern::contextual(&t, s, lang), None => Pattern::try_new(&t, lang) }));
            if let Ok(Ok(p)) = p {
              let p = p.with_strictness(crate::dump::strict_of(rng.below(5)));
              out.case(37, &vl![crate::dump::dump_pattern(&p)], &Val::str_bytes(&p.fixed_string()), &format!("fixed_string of {t:?} [{:?}]", crate::dump::strict_id(&p.strictness)));
              // direct oracle for the prefilter: a file with a match contains the fixed string
              let fs = p.fixed_string().to_string();
              if !fs.is_empty() && !dc.src.contains(&fs) && dc.nodes.iter().any(|n| p.match_node(n.clone()).is_some()) {
                out.oracle_fail("", &format!("{lang}: pattern {t:?} matches a node of the file but the file does not contain its fixed string {fs:?} (the CLI would skip the file)"),
                  json!({"stream": "c01-prefilter", "lang": lang.to_string(), "pattern": t, "source": dc.src}));
              }
              out.checked();
              check_matcher(&mut out, &dc, &p, &format!("pattern {t:?} selector {sel:?}"), &start);
            }
          }
          _ => {
            let p = if rng.chance(1, 2) { gen_witnessed_project(&mut rng, lang, &dc.nodes, 2, true) } else { gen_project(&mut rng, &ing, 3, true, false) };
            if let Ok(core) = p.load(lang) {
              check_matcher(&mut out, &dc, &core, &format!("rule {}", serde_json::to_string(&p.yaml()).unwrap()), &start);
              if let Ok((wr, wu, wc)) = project_wire(&p, &dc) {
                out.case(35, &vl![Val::str_bytes(src), dc.td.val.clone(), wr, wu, wc, Val::L(vec![])], &kinds_val(&core.potential_kinds()), &format!("potential_kinds {}", serde_json::to_string(&p.yaml()).unwrap()));
              }
              if !sampled {
                sampled = true;
                out.sample(json!({"lang": lang.to_string(), "rule": p.yaml()}));
              }
            }
          }
        }
      }
      // several rules scanned together
      for _ in 0..(per_src / 4).max(1) {
        let n = 1 + rng.below(4);
        let mut yamls = vec![];
        for i in 0..n {
          let body = if rng.chance(1, 2) && !ing.kinds.is_empty() {
            format!("  kind: {}\n", rng.pick(&ing.kinds))
          } else if !ing.patterns.is_empty() {
            format!("  pattern: {}\n", serde_json::to_string(&rng.pick(&ing.patterns).0).unwrap())
          } else {
            continue;
          };
          let fix = if rng.chance(1, 3) { Some("X") } else { None };
          yamls.push(rule_yaml(&format!("r{}", (i * 7 + rng.below(5)) % 10), lang, &body, fix));
        }
        // on a tree with syntax errors: a rule for the built-in ERROR kind (its id lies outside every grammar's
        // symbol table), alone or below a composite / utility
        if corpus::has_error(&root) && rng.chance(2, 3) {
          let other = if ing.kinds.is_empty() { "ERROR".to_string() } else { rng.pick(&ing.kinds).clone() };
          let body = match rng.below(4) {
            0 => "  kind: ERROR\n".to_string(),
            1 => format!("  any:\n    - kind: ERROR\n    - kind: {other}\n"),
            2 => "  all:\n    - kind: ERROR\n    - regex: '.'\n".to_string(),
            _ => "  matches: err\nutils:\n  err:\n    kind: ERROR\n".to_string(),
          };
          yamls.push(rule_yaml("syntax-error", lang, &body, None));
          out.count("scan:rule-sets-with-ERROR-kind");
        }
        // distinct ids
        let mut seen = std::collections::HashSet::new();
        yamls.retain(|y| seen.insert(y.lines().next().unwrap().to_string()));
        if let Some(rules) = load_rules(&yamls) {
          check_scan(&mut out, &dc, &sg, &rules, &format!("rules={}", serde_json::to_string(&yamls).unwrap()));
          out.count("scan:rule-sets");
        }
      }
    }
  }
  // ---- a LOCAL utility that shadows a GLOBAL one of the same id: the reference must be dispatched with the kinds
  //      of the utility that matching really uses (the local one), whatever the global one says
  {
    use ast_grep_config::{from_str, DeserializeEnv};
    let lang = SupportLang::TypeScript;
    let src = "let a = '1'; let b = 2; let c = 'x'; foo(3, '4', `5`)\n";
    for (gbody, lbody) in [("kind: number", "regex: '^.?[0-9]+.?$'"), ("kind: string", "not: {kind: identifier}"), ("kind: number", "inside: {kind: variable_declarator}"), ("regex: '^1'", "kind: number")] {
      let Ok(g) = from_str(&format!("id: literal\nlanguage: TypeScript\nrule:\n  {gbody}\n")) else { continue };
      let Ok(globals) = DeserializeEnv::<SupportLang>::parse_global_utils(vec![g]) else { continue };
      for rbody in ["  all:\n    - any:\n        - kind: string\n        - kind: number\n        - kind: template_string\n    - matches: literal\n", "  any:\n    - matches: literal\n    - kind: regex\n", "  matches: literal\n  kind: string\n"] {
        let yaml = format!("id: r\nlanguage: TypeScript\nmessage: m\nrule:\n{rbody}utils:\n  literal:\n    {lbody}\n");
        let Ok(Ok(rules)) = catch_unwind(AssertUnwindSafe(|| from_yaml_string::<SupportLang>(&yaml, &globals))) else { out.count("shadowing:rejected"); continue };
        let sg = corpus::parse(lang, src);
        let root = sg.root();
        let nodes = corpus::all_nodes(root.clone());
        let td = dump_tree_at(&root, 0);
        let dc = DocCtx { lang, src, nodes, td };
        out.count("shadowing:local-utility-over-global");
        // the local utility shadows the global one completely: the rule must behave exactly as if the global
        // utility did not exist
        {
          let alone = catch_unwind(AssertUnwindSafe(|| from_yaml_string::<SupportLang>(&yaml, &GlobalRules::default())));
          out.checked();
          match alone {
            Ok(Ok(ra)) => {
              let a: Vec<(usize, usize)> = root.find_all(&rules[0].matcher).map(|m| (m.range().start, m.range().end)).collect();
              let b: Vec<(usize, usize)> = root.find_all(&ra[0].matcher).map(|m| (m.range().start, m.range().end)).collect();
              if a != b {
                out.oracle_fail("", &format!("a rule whose local utility `literal` shadows a global utility of the same id finds {a:?}; without the global utility it finds {b:?}: {}", serde_json::to_string(&yaml).unwrap()),
                  json!({"stream": "c01-shadowing", "rule": yaml, "global": gbody, "source": src}));
              }
            }
            _ => {
              out.oracle_fail("", &format!("a rule is accepted only because a global utility with the id of its local utility exists (without it the rule is refused): {}", serde_json::to_string(&yaml).unwrap()),
                json!({"stream": "c01-shadowing", "rule": yaml, "global": gbody}));
            }
          }
        }
        check_matcher(&mut out, &dc, &rules[0].matcher, &format!("rule with a local utility shadowing a global one: {}", serde_json::to_string(&yaml).unwrap()), &root);
        check_scan(&mut out, &dc, &sg, &rules, &format!("rules={}", serde_json::to_string(&yaml).unwrap()));
      }
    }
  }
  out.finish("kind matchers, patterns (all strictness levels, contextual) and random / witnessed rule objects on real and token-mutated trees of all 23 languages, from the root and from inner start nodes: \
              find_all, the reentrant and the overlap-free pre-order visitor and the post-order visitor against matching every node individually (direct oracle) and against the model's traversal on the dumped tree (tie); \
              potential_kinds against the model; 1-4 rules scanned together by CombinedScan (with and without separate fixes) against each rule alone. non-trivial = the matcher matched somewhere");
}
