//! C02 — code with holes matches the code it was cut from, binding each hole exactly.
//! C03 — every reported match is justified by the strictness rules (near-miss stream).
use crate::corpus::{self, N};
use crate::dump::{self, dump_env, dump_pattern, dump_tree, strict_of, STRICT_NAMES};
use crate::out::Out;
use crate::rng::Rng;
use crate::val::Val;
use crate::{vl, Opts};
use ast_grep_core::matcher::PatternNode;
use ast_grep_core::meta_var::MetaVariable;
use ast_grep_core::matcher::MatcherExt;
use ast_grep_core::{Matcher, Pattern};
use ast_grep_language::SupportLang;
use serde_json::json;
use std::collections::HashMap;
use std::panic::{catch_unwind, AssertUnwindSafe};

pub fn langs_for(o: &Opts, salt: usize) -> Vec<SupportLang> {
  let all = SupportLang::all_langs();
  // the matcher streams (salt 2, 3) are cheap: all 23 languages in both tiers
  if o.thorough || salt == 2 || salt == 3 {
    return all.to_vec();
  }
  let mut v = vec![SupportLang::JavaScript];
  for k in 0..3 {
    let l = all[((o.seed as usize).wrapping_mul(5) + salt + k * 7) % all.len()];
    if !v.contains(&l) {
      v.push(l);
    }
  }
  v
}

pub fn subtree_size(n: &N) -> usize {
  n.dfs().count()
}

fn is_sigil_free(text: &str, lang: SupportLang) -> bool {
  use ast_grep_core::Language;
  !text.contains('$') && !text.contains(lang.expando_char()) || lang.expando_char() == '$' && !text.contains('$')
}

/// a cut: holes (descendant nodes replaced by $V<i>) and an optional trailing sibling run replaced by $$$R
pub struct Cut<'a> {
  pub text: String,
  pub holes: Vec<(String, N<'a>)>,
  pub run: Option<(String, Vec<N<'a>>)>,
}

pub fn make_cut<'a>(t: &N<'a>, rng: &mut Rng, want_run: bool) -> Cut<'a> {
  let base = t.range().start;
  let text = t.text().to_string();
  let desc: Vec<N> = t.dfs().skip(1).filter(|d| d.is_named() && !d.range().is_empty()).collect();
  // replacements: (start, end, replacement text)
  let mut repl: Vec<(usize, usize, String)> = vec![];
  let mut holes = vec![];
  let mut run = None;
  if want_run {
    // a trailing run of siblings followed only by unnamed tokens
    let parents: Vec<N> = t.dfs().filter(|p| p.children().filter(|c| c.is_named()).count() >= 1 && p.children().len() >= 2).collect();
    if !parents.is_empty() {
      let p = rng.pick(&parents).clone();
      let ch: Vec<N> = p.children().collect();
      // last named child index
      if let Some(last_named) = ch.iter().rposition(|c| c.is_named()) {
        let named_idx: Vec<usize> = (0..=last_named).filter(|i| ch[*i].is_named()).collect();
        let first = *rng.pick(&named_idx);
        let nodes: Vec<N> = ch[first..=last_named].to_vec();
        let (s, e) = (nodes[0].range().start, nodes[nodes.len() - 1].range().end);
        if e > s {
          repl.push((s, e, "$$$R".to_string()));
          run = Some(("R".to_string(), nodes));
        }
      }
    }
  }
  let nholes = rng.below(4);
  for i in 0..nholes {
    if desc.is_empty() {
      break;
    }
    let d = rng.pick(&desc).clone();
    let r = d.range();
    if repl.iter().any(|(s, e, _)| r.start < *e && *s < r.end) {
      continue;
    }
    let name = format!("V{i}");
    repl.push((r.start, r.end, format!("${name}")));
    holes.push((name, d));
  }
  repl.sort_by_key(|x| x.0);
  let mut out = String::new();
  let mut pos = base;
  let bytes = text.as_bytes();
  for (s, e, r) in &repl {
    out.push_str(std::str::from_utf8(&bytes[pos - base..*s - base]).unwrap_or(""));
    out.push_str(r);
    pos = *e;
  }
  out.push_str(std::str::from_utf8(&bytes[pos - base..]).unwrap_or(""));
  Cut { text: out, holes, run }
}

/// does the re-parsed pattern have the shape of `t` with holes exactly at the cut positions?
pub fn is_cut(p: &PatternNode, t: &N, cut: &Cut) -> bool {
  // hole at this node?
  if let Some((name, _)) = cut.holes.iter().find(|(_, h)| h.node_id() == t.node_id()) {
    return matches!(p, PatternNode::MetaVar { meta_var: MetaVariable::Capture(n, true) } if n == name);
  }
  match p {
    PatternNode::MetaVar { .. } => false,
    PatternNode::Terminal { text, is_named, kind_id } => {
      t.is_leaf() && *kind_id == t.kind_id() && *is_named == t.is_named() && *text == t.text()
    }
    PatternNode::Internal { kind_id, children } => {
      if *kind_id != t.kind_id() || t.is_leaf() {
        return false;
      }
      let tch: Vec<N> = t.children().filter(|c| !c.get_ts_node().is_missing()).collect();
      // does the run start among these children?
      let run_here = cut.run.as_ref().and_then(|(name, nodes)| {
        tch.iter().position(|c| c.node_id() == nodes[0].node_id()).map(|i| (name, i, nodes.len()))
      });
      match run_here {
        None => children.len() == tch.len() && children.iter().zip(tch.iter()).all(|(pc, tc)| is_cut(pc, tc, cut)),
        Some((name, i, len)) => {
          // children before the run, one ellipsis, children after the run
          if children.len() != tch.len() - len + 1 {
            return false;
          }
          let ell_ok = matches!(&children[i], PatternNode::MetaVar { meta_var: MetaVariable::MultiCapture(n) } if n == name);
          ell_ok
            && children[..i].iter().zip(tch[..i].iter()).all(|(pc, tc)| is_cut(pc, tc, cut))
            && children[i + 1..].iter().zip(tch[i + len..].iter()).all(|(pc, tc)| is_cut(pc, tc, cut))
        }
      }
    }
  }
}

pub fn tie_match(out: &mut Out, p: &Pattern<SupportLang>, t: &N, what: &str) -> (bool, Option<usize>) {
  let td = dump_tree(t);
  let text = t.text();
  let r = catch_unwind(AssertUnwindSafe(|| p.match_node(t.clone())));
  let (expected, matched) = match &r {
    Err(_) => (Val::err("panic"), false),
    Ok(None) => (vl![Val::Z(1)], false),
    Ok(Some(nm)) => (vl![Val::Z(0), dump_env(nm.get_env(), &td)], true),
  };
  let input = vl![Val::str_bytes(&text), td.val.clone(), dump_pattern(p)];
  out.case(10, &input, &expected, what);
  let len = match catch_unwind(AssertUnwindSafe(|| p.get_match_len(t.clone()))) {
    Ok(l) => {
      out.case(11, &input, &Val::opt(l.map(Val::n)), what);
      l
    }
    Err(_) => {
      out.case(11, &input, &Val::err("panic"), what);
      out.oracle_fail("", &format!("get_match_len panics: {what}"), serde_json::json!({"stream": "match-len-panic", "case": what}));
      None
    }
  };
  (matched, len)
}


/// the documented pre-processing, written independently (regex-free, over a char vector): a run of sigils is
/// replaced by the expando character iff it introduces a meta variable (next char upper-case or `_`) or is `$$$`
fn my_pre_process(expando: char, q: &str) -> String {
  let cs: Vec<char> = q.chars().collect();
  let mut out = String::new();
  let mut i = 0;
  while i < cs.len() {
    if cs[i] != '$' {
      out.push(cs[i]);
      i += 1;
      continue;
    }
    let mut j = i;
    while j < cs.len() && cs[j] == '$' {
      j += 1;
    }
    let n = j - i;
    let intro = n == 3 || (j < cs.len() && (cs[j].is_ascii_uppercase() || cs[j] == '_'));
    for _ in 0..n {
      out.push(if intro { expando } else { '$' });
    }
    i = j;
  }
  out
}

/// the pattern tree the holed text SHOULD give: parse the independently pre-processed text and take the single node
/// For a hole-free pattern (the node's own text): does tree-sitter parse the text to ONE node of exactly the
/// node's shape — same kinds, same leaf texts?  Decided on the raw parse, without the implementation's pattern
/// conversion.
fn parses_to_same_shape(lang: SupportLang, text: &str, t: &N) -> bool {
  use ast_grep_core::Language;
  let g = lang.ast_grep(text);
  let is_single = |n: &N| {
    let cnt = n.children().count();
    cnt == 1 || (cnt == 2 && n.child(1).map(|c| c.get_ts_node().is_missing() || c.kind().is_empty()).unwrap_or(false))
  };
  fn same(a: &N, b: &N) -> bool {
    if a.kind_id() != b.kind_id() {
      return false;
    }
    let ac: Vec<N> = a.children().filter(|c| !c.get_ts_node().is_missing()).collect();
    let bc: Vec<N> = b.children().filter(|c| !c.get_ts_node().is_missing()).collect();
    if ac.is_empty() || bc.is_empty() {
      return ac.is_empty() && bc.is_empty() && a.text() == b.text();
    }
    ac.len() == bc.len() && ac.iter().zip(bc.iter()).all(|(x, y)| same(x, y))
  }
  let mut n = g.root();
  if corpus::has_error(&n) {
    return false;
  }
  loop {
    if same(&n, t) {
      return true;
    }
    if !is_single(&n) {
      return false;
    }
    match n.child(0) {
      Some(c) => n = c,
      None => return false,
    }
  }
}

fn expected_pattern(lang: SupportLang, text: &str) -> Option<Pattern<SupportLang>> {
  use ast_grep_core::Language;
  let pre = my_pre_process(lang.expando_char(), text);
  let g = lang.ast_grep(&pre);
  let is_single = |n: &N| {
    let cnt = n.children().count();
    cnt == 1 || (cnt == 2 && n.child(1).map(|c| c.get_ts_node().is_missing() || c.kind().is_empty()).unwrap_or(false))
  };
  let mut n = g.root();
  // a pattern must be ONE node: several top-level nodes are rejected (documented restriction, not a defect)
  if !is_single(&n) {
    return None;
  }
  while is_single(&n) {
    n = n.child(0)?;
  }
  // the conversion reads the node, it does not keep a borrow
  let r = catch_unwind(AssertUnwindSafe(|| Pattern::from(n.clone())));
  r.ok()
}

pub fn run_c02(o: &Opts) {
  let mut out = Out::new(&o.out);
  let mut rng = Rng::new(o.seed ^ 0xc02);
  let per_src = if o.thorough { 200 } else { 60 };
  let nsrc = if o.thorough { 8 } else { 5 };
  let mut shape_ok = 0u64;
  let mut shape_differs = 0u64;
  let mut parse_fail = 0u64;
  let mut sampled = false;
  for lang in langs_for(o, 2) {
    let mut srcs = corpus::sources(lang, &mut rng, nsrc, 2500);
    // one source with CRLF line ends: in several grammars a line comment then ends in a carriage return
    if let Some(s0) = srcs.first().cloned() {
      srcs.push(s0.replace('\n', "\r\n"));
      out.count("source:crlf-variant");
    }
    // the small committed files hold special shapes (e.g. HTML elements whose raw text is empty): always included
    for f in corpus::committed(lang) {
      if f.len() < 600 && !srcs.contains(&f) {
        srcs.push(f);
        out.count("source:small-committed-file");
      }
    }
    for src in &srcs {
      let sg = corpus::parse(lang, src);
      let nodes: Vec<N> = corpus::all_nodes(sg.root())
        .into_iter()
        .filter(|n| n.is_named() && !n.get_ts_node().has_error() && !n.range().is_empty() && n.range().len() <= 400)
        .filter(|n| is_sigil_free(&n.text(), lang))
        .collect();
      if nodes.is_empty() {
        continue;
      }
      // nodes with a zero-width descendant that the parser did not invent (not `missing`): e.g. the raw text of an
      // empty <script></script>; the pattern parsed from the node's text has it too
      let zero_w: Vec<N> = nodes.iter().filter(|n| subtree_size(n) <= 120 && n.children().count() >= 2 && n.dfs().skip(1).any(|d| d.range().is_empty() && !d.get_ts_node().is_missing())).cloned().collect();
      // nodes whose text has a multi-byte character in front of a named descendant: a hole behind non-ASCII text
      let wide: Vec<N> = nodes.iter().filter(|n| !n.text().is_ascii() && n.children().count() >= 2 && subtree_size(n) <= 120).cloned().collect();
      // lists that keep a dangling separator before their closer (`f(a, b, c,)`): a trailing run cut from them is
      // followed in the pattern by two unnamed tokens
      let dangling: Vec<N> = nodes.iter().filter(|n| {
        let ch: Vec<N> = n.children().collect();
        ch.len() >= 5 && !ch[ch.len() - 1].is_named() && ch[ch.len() - 2].text() == "," && ch.iter().filter(|c| c.is_named()).count() >= 2 && subtree_size(n) <= 60
      }).cloned().collect();
      // nodes one of whose leaves ends in a carriage return (a line comment of a CRLF file, in several grammars)
      let cr_leaf: Vec<N> = if src.contains("\r\n") {
        nodes.iter().filter(|n| n.children().count() >= 2 && subtree_size(n) <= 120 && n.dfs().any(|d| d.is_leaf() && d.text().ends_with('\r'))).cloned().collect()
      } else { vec![] };
      for k in 0..per_src {
        if k % 3 == 2 && !zero_w.is_empty() {
          let t = rng.pick(&zero_w).clone();
          out.count("node:has-a-visible-zero-width-descendant");
          let text = t.text().to_string();
          if let Ok(Ok(p0)) = catch_unwind(AssertUnwindSafe(|| Pattern::try_new(&text, lang))) {
            if parses_to_same_shape(lang, &text, &t) {
              out.checked();
              for si in 0..5 {
                let p = p0.clone().with_strictness(strict_of(si));
                tie_match(&mut out, &p, &t, &format!("c02-zw lang={lang} strictness={} pattern={:?}", STRICT_NAMES[si], text));
                if p.match_node(t.clone()).is_none() {
                  out.oracle_fail("", &format!("{lang} [{}]: the text {:?} parses to exactly the node's shape (a zero-width node included), yet as a pattern it does not match the node it was copied from", STRICT_NAMES[si], text),
                    json!({"stream": "c02-self", "lang": lang.to_string(), "strictness": STRICT_NAMES[si], "pattern": text, "code": t.text()}));
                  break;
                }
              }
            }
          }
          continue;
        }
        if k % 3 == 1 && !cr_leaf.is_empty() {
          // the node's own text as pattern
          let t = rng.pick(&cr_leaf).clone();
          out.count("node:has-a-leaf-ending-in-CR");
          let cut = Cut { text: t.text().to_string(), holes: vec![], run: None };
          if let Ok(Ok(p0)) = catch_unwind(AssertUnwindSafe(|| Pattern::try_new(&cut.text, lang))) {
            if parses_to_same_shape(lang, &cut.text, &t) {
              out.checked();
              for si in 0..5 {
                let p = p0.clone().with_strictness(strict_of(si));
                tie_match(&mut out, &p, &t, &format!("c02-cr lang={lang} strictness={} pattern={:?}", STRICT_NAMES[si], cut.text));
                if p.match_node(t.clone()).is_none() {
                  out.oracle_fail("", &format!("{lang} [{}]: the text {:?} (CRLF file) parses to exactly the node's shape, yet as a pattern it does not match the node it was copied from", STRICT_NAMES[si], cut.text),
                    json!({"stream": "c02-self", "lang": lang.to_string(), "strictness": STRICT_NAMES[si], "pattern": cut.text, "code": t.text()}));
                  break;
                }
              }
            }
          }
          continue;
        }
        let use_dangling = k % 6 == 2 && !dangling.is_empty();
        let t = if use_dangling { out.count("node:list-with-dangling-separator"); rng.pick(&dangling).clone() } else if k % 5 == 1 && !wide.is_empty() { rng.pick(&wide).clone() } else { rng.pick(&nodes).clone() };
        if subtree_size(&t) > 120 {
          continue;
        }
        if !t.text().is_ascii() {
          out.count("node:has-multi-byte-text");
        }
        let cut = if use_dangling { make_cut(&t, &mut rng, true) } else if k % 4 == 0 { Cut { text: t.text().to_string(), holes: vec![], run: None } } else { make_cut(&t, &mut rng, k % 3 == 0) };
        // the precondition "the pattern parses to the same tree shape", decided independently of the implementation's
        // own pre-processing: on the tree-sitter parse of the text pre-processed as documented
        let precondition_holds = expected_pattern(lang, &cut.text).map(|ep| is_cut(&ep.node, &t, &cut)).unwrap_or(false);
        let p0 = match catch_unwind(AssertUnwindSafe(|| Pattern::try_new(&cut.text, lang))) {
          Ok(Ok(p)) => p,
          _ => {
            parse_fail += 1;
            out.count(&format!("{lang}:pattern-rejected"));
            if precondition_holds {
              out.checked();
              out.oracle_fail("", &format!("{lang}: the pattern {:?} cut from {:?} parses to the shape of the code when pre-processed as documented, but the implementation rejects it", cut.text, t.text()),
                json!({"stream": "c02-preprocess", "lang": lang.to_string(), "pattern": cut.text, "code": t.text()}));
            }
            continue;
          }
        };
        // every hole the generator wrote is spelled `$V<i>` (`$$$R` for a run) in a sigil-free text: whatever shape the
        // pattern parses to, none of these spellings may survive as LITERAL token text (a hole that is not recognised
        // as a meta variable binds nothing) — decided on the pattern tree, independently of the shape precondition
        {
          use ast_grep_core::Language;
          fn leaf_texts(p: &PatternNode, acc: &mut Vec<String>) {
            match p {
              PatternNode::Terminal { text, .. } => acc.push(text.to_string()),
              PatternNode::Internal { children, .. } => children.iter().for_each(|c| leaf_texts(c, acc)),
              PatternNode::MetaVar { .. } => {}
            }
          }
          let mut leaves = vec![];
          leaf_texts(&p0.node, &mut leaves);
          let ex = lang.expando_char();
          let mut spelled: Vec<String> = cut.holes.iter().map(|(name, _)| format!("{ex}{name}")).collect();
          if let Some((name, _)) = &cut.run {
            spelled.push(format!("{ex}{ex}{ex}{name}"));
          }
          out.checked();
          if let Some(sp) = spelled.iter().find(|sp| leaves.iter().any(|l| l == *sp)) {
            out.oracle_fail("", &format!("{lang}: in the pattern {:?} (cut from {:?}) the hole spelled {:?} after pre-processing is not recognised as a meta variable: it stays the literal token text of the pattern tree {:?}", cut.text, t.text(), sp, p0.node),
              json!({"stream": "c02-hole-literal", "lang": lang.to_string(), "pattern": cut.text, "code": t.text()}));
          }
        }
        if !is_cut(&p0.node, &t, &cut) && precondition_holds {
          out.checked();
          out.oracle_fail("", &format!("{lang}: the pattern {:?} cut from {:?} parses to the shape of the code when pre-processed as documented, but the implementation builds a different pattern tree ({:?})", cut.text, t.text(), p0.node),
            json!({"stream": "c02-preprocess", "lang": lang.to_string(), "pattern": cut.text, "code": t.text()}));
        }
        // a hole-free pattern whose raw parse has exactly the node's shape must match the node: whatever the
        // implementation's conversion made of it
        // (nodes with at least two children: for a chain of single-child nodes with one text it is the implementation's
        // choice which of them the pattern stands for)
        if cut.holes.is_empty() && cut.run.is_none() && t.children().count() >= 2 && !is_cut(&p0.node, &t, &cut) && parses_to_same_shape(lang, &cut.text, &t) {
          out.checked();
          for si in 0..5 {
            let p = p0.clone().with_strictness(strict_of(si));
            if p.match_node(t.clone()).is_none() {
              out.oracle_fail("", &format!("{lang} [{}]: the text {:?} parses to exactly the node's shape, yet as a pattern it does not match the node it was copied from (pattern tree: {:?})", STRICT_NAMES[si], cut.text, p0.node),
                json!({"stream": "c02-self", "lang": lang.to_string(), "strictness": STRICT_NAMES[si], "pattern": cut.text, "code": t.text()}));
              break;
            }
          }
        }
        if !is_cut(&p0.node, &t, &cut) {
          shape_differs += 1;
          out.count(&format!("{lang}:shape-differs(skipped)"));
          // still a useful tie case
          tie_match(&mut out, &p0, &t, &format!("c02-offshape lang={lang} pattern={:?}", cut.text));
          continue;
        }
        shape_ok += 1;
        out.count(&format!("{lang}:cut-ok holes={} run={}", cut.holes.len(), cut.run.is_some()));
        out.nontrivial(&(lang.to_string(), cut.text.clone(), t.range().start, src.len()));
        if !sampled {
          sampled = true;
          out.sample(json!({"lang": lang.to_string(), "code": t.text(), "pattern": cut.text,
            "holes": cut.holes.iter().map(|(n, h)| json!({"var": n, "text": h.text()})).collect::<Vec<_>>()}));
        }
        for si in 0..5 {
          let p = p0.clone().with_strictness(strict_of(si));
          let what = format!("c02 lang={lang} strictness={} pattern={:?} code={:?}", STRICT_NAMES[si], cut.text, t.text());
          tie_match(&mut out, &p, &t, &what);
          out.checked();
          let fail = |out: &mut Out, why: String| {
            out.oracle_fail("", &format!("{lang} [{}] pattern {:?} cut from {:?}: {why}", STRICT_NAMES[si], cut.text, t.text()),
              json!({"stream": "c02", "lang": lang.to_string(), "strictness": STRICT_NAMES[si], "pattern": cut.text, "code": t.text(), "why": why}));
          };
          match p.match_node(t.clone()) {
            None => fail(&mut out, "does not match the code it was cut from".into()),
            Some(nm) => {
              let env = nm.get_env();
              for (name, h) in &cut.holes {
                match env.get_match(name) {
                  Some(b) if b.node_id() == h.node_id() => {}
                  Some(b) => fail(&mut out, format!("${name} bound to {:?} at {:?}, replaced sub-expression is {:?} at {:?}", b.text(), b.range(), h.text(), h.range())),
                  None => fail(&mut out, format!("${name} is unbound")),
                }
              }
              if let Some((name, nodes)) = &cut.run {
                let got: Vec<usize> = env.get_multiple_matches(name).iter().filter(|n| n.is_named()).map(|n| n.node_id()).collect();
                let want: Vec<usize> = nodes.iter().filter(|n| n.is_named()).map(|n| n.node_id()).collect();
                if got != want {
                  fail(&mut out, format!("$$${name} bound to {} named nodes, the replaced run has {}", got.len(), want.len()));
                }
              }
            }
          }
        }
      }
    }
  }
  out.set("cut_shape_ok", json!(shape_ok));
  out.set("cut_shape_differs_skipped", json!(shape_differs));
  out.set("cut_pattern_rejected", json!(parse_fail));
  out.finish(
    "error-free named nodes (<=400 bytes, <=120 nodes, free of sigils) of corpus sources; 0-3 non-overlapping named descendants replaced by distinct $V holes and (every third case) a trailing sibling run by $$$R; \
     the holed text is re-parsed by Pattern::try_new and kept only if it has the same shape (checked structurally, skipped cases counted); each kept cut is matched at all five strictness levels; \
     every case (kept or not) is also a tie case for the model. non-trivial/distinct = distinct (language, pattern text, node) with the same shape",
  );
}

// ---------------- C03 ----------------

fn cand_skippable(si: usize, c: &N) -> bool {
  match si {
    0 => false,
    1 | 2 => !c.is_named(),
    _ => !c.is_named() || c.kind().contains("comment"),
  }
}

struct Aligner<'a> {
  si: usize,
  memo: HashMap<(usize, usize), bool>,
  _p: std::marker::PhantomData<&'a ()>,
}

impl<'a> Aligner<'a> {
  /// independent alignment relation of the property statement (existence of an order-preserving partial matching)
  fn aligned(&mut self, p: &PatternNode, c: &N) -> bool {
    let key = (p as *const _ as usize, c.node_id());
    if let Some(b) = self.memo.get(&key) {
      return *b;
    }
    let r = match p {
      PatternNode::MetaVar { meta_var } => match meta_var {
        MetaVariable::Capture(_, named) | MetaVariable::Dropped(named) => !*named || c.is_named(),
        _ => true,
      },
      PatternNode::Terminal { text, is_named, kind_id } => {
        let km = *kind_id == c.kind_id() || *kind_id == 65535;
        // token text agrees, except under signature
        km && (self.si == 4 || !*is_named || *text == c.text())
      }
      PatternNode::Internal { kind_id, children } => {
        let km = *kind_id == c.kind_id() || *kind_id == 65535;
        km && {
          let cs: Vec<N> = c.children().collect();
          self.aligned_list(children, &cs)
        }
      }
    };
    self.memo.insert(key, r);
    r
  }

  fn aligned_list(&mut self, gs: &[PatternNode], cs: &[N]) -> bool {
    // dp[i][j]: goals i.. can be aligned with candidates j..
    let (n, m) = (gs.len(), cs.len());
    let mut dp = vec![vec![false; m + 1]; n + 1];
    for j in (0..=m).rev() {
      // no goal left: trailing candidates unconstrained under smart, skippable otherwise
      dp[n][j] = self.si == 1 || cs[j..].iter().all(|c| cand_skippable(self.si, c));
    }
    for i in (0..n).rev() {
      let g = &gs[i];
      let is_ell = matches!(g, PatternNode::MetaVar { meta_var: MetaVariable::Multiple | MetaVariable::MultiCapture(_) });
      let may_stay_unmatched = match g {
        PatternNode::MetaVar { .. } => true,
        PatternNode::Terminal { is_named, .. } => !*is_named,
        PatternNode::Internal { .. } => false,
      };
      for j in (0..=m).rev() {
        let mut ok = false;
        if is_ell {
          // absorbs cs[j..k]
          for k in j..=m {
            if dp[i + 1][k] {
              ok = true;
              break;
            }
          }
        }
        if !ok && may_stay_unmatched && dp[i + 1][j] {
          ok = true;
        }
        if !ok && j < m {
          if self.aligned(g, &cs[j]) && dp[i + 1][j + 1] {
            ok = true;
          }
          if !ok && cand_skippable(self.si, &cs[j]) && dp[i][j + 1] {
            ok = true;
          }
        }
        dp[i][j] = ok;
      }
    }
    dp[0][0]
  }
}

struct Planned { lang: SupportLang, src: String, ptext: String, start: usize, end: usize, kind: u16, si: usize }

/// `$$$` followed by a node that ends the pattern's child list, on code that has FURTHER named siblings after the
/// first node matching it: only `smart` may leave those trailing siblings unmatched
fn ellipsis_then_last(out: &mut Out) {
  // (language, pattern, code, node kind to try, does the code have extra named siblings after the match?)
  let cases: &[(SupportLang, &str, &str, bool)] = &[
    (SupportLang::Python, "return $$$A, b", "return a, b, c", true),
    (SupportLang::Python, "return $$$A, b", "return a, b", false),
    (SupportLang::Python, "return $$$A, b", "return x, y, a, b, c, d", true),
    (SupportLang::Python, "import $$$A, os", "import sys, os, re", true),
    (SupportLang::Python, "import $$$A, os", "import sys, os", false),
    (SupportLang::TypeScript, "let $$$A, b = 1", "let a = 0, b = 1, c = 2", true),
    (SupportLang::TypeScript, "let $$$A, b = 1", "let a = 0, b = 1", false),
    (SupportLang::Tsx, "let $$$A, b = 1", "let a = 0, b = 1, c = 2", true),
    (SupportLang::JavaScript, "var $$$A, b = 1", "var a = 0, b = 1, c = 2, d = 3", true),
    (SupportLang::JavaScript, "var $$$A, b = 1", "var b = 1", false),
    (SupportLang::Go, "var $$$A, b int", "var a, b, c int", true),
    (SupportLang::Ruby, "return $$$A, b", "return a, b, c", true),
    (SupportLang::Ruby, "return $$$A, b", "return a, b", false),
  ];
  for (lang, ptext, code, extra) in cases {
    let Ok(Ok(p0)) = catch_unwind(AssertUnwindSafe(|| Pattern::try_new(ptext, *lang))) else { continue };
    let sg = corpus::parse(*lang, code);
    if corpus::has_error(&sg.root()) {
      continue;
    }
    let smart_root = sg.root().dfs().find(|n| p0.clone().with_strictness(strict_of(1)).match_node(n.clone()).is_some());
    let Some(t) = smart_root else { continue };
    for si in 0..5 {
      let p = p0.clone().with_strictness(strict_of(si));
      let what = format!("c03-ellipsis-last lang={lang} strictness={} pattern={ptext:?} code={code:?}", STRICT_NAMES[si]);
      let (matched, _) = tie_match(out, &p, &t, &what);
      out.checked();
      out.count("ellipsis-then-last-pattern-node");
      if matched {
        out.nontrivial(&(lang.to_string(), ptext.to_string(), code.to_string(), si));
      }
      // smart (index 1) may skip trailing siblings; the others must see them
      // (under `signature` token text is not compared: the first sibling of the right kind ends the ellipsis, and the
      // matcher does not backtrack — nothing is demanded of the codes without extra siblings there)
      let want = if *extra { si == 1 } else { true };
      if matched != want && (*extra || si != 4) {
        out.oracle_fail("", &format!("{lang} [{}]: pattern {ptext:?} on {code:?} {}; the code has {} named siblings after the node that ends the pattern", STRICT_NAMES[si],
          if matched { "matches" } else { "does not match" }, if *extra { "further" } else { "no further" }),
          json!({"stream": "c03-ellipsis-last", "lang": lang.to_string(), "pattern": ptext, "code": code, "strictness": STRICT_NAMES[si]}));
      }
    }
  }
}

pub fn run_c03(o: &Opts) {
  let mut out = Out::new(&o.out);
  ellipsis_then_last(&mut out);
  let mut plan: Vec<Planned> = vec![];
  let mut rng = Rng::new(o.seed ^ 0xc03);
  let per_src = if o.thorough { 400 } else { 150 };
  let nsrc = if o.thorough { 8 } else { 6 };
  let mut matched_n = 0u64;
  let mut sampled = false;
  for lang in langs_for(o, 3) {
    let mut srcs = corpus::sources(lang, &mut rng, nsrc, 2500);
    if let Some(s0) = srcs.first().cloned() {
      srcs.push(corpus::mutate(&s0, &mut rng));
    }
    // pattern pool: cuts from all sources of the language
    let mut pool: Vec<(String, u16)> = vec![];
    for src in &srcs {
      let sg = corpus::parse(lang, src);
      let nodes: Vec<N> = corpus::all_nodes(sg.root()).into_iter()
        .filter(|n| n.is_named() && !n.range().is_empty() && n.range().len() <= 200 && is_sigil_free(&n.text(), lang)).collect();
      for _ in 0..30 {
        if nodes.is_empty() {
          break;
        }
        let t = rng.pick(&nodes).clone();
        if subtree_size(&t) > 60 {
          continue;
        }
        let wr = rng.chance(1, 3);
        let mut cut = make_cut(&t, &mut rng, wr);
        // repeated variable: rename V1 to V0 sometimes (C04 flavour)
        if rng.chance(1, 6) {
          cut.text = cut.text.replace("$V1", "$V0");
        }
        if rng.chance(1, 8) {
          cut.text = cut.text.replace("$V0", "$$V0");
        }
        if rng.chance(1, 10) {
          cut.text = cut.text.replace("$V0", "$$$");
        }
        pool.push((cut.text, t.kind_id()));
      }
    }
    for src in &srcs {
      let sg = corpus::parse(lang, src);
      let nodes: Vec<N> = corpus::all_nodes(sg.root()).into_iter().filter(|n| n.range().len() <= 300).collect();
      if nodes.is_empty() || pool.is_empty() {
        continue;
      }
      let mut by_kind: HashMap<u16, Vec<usize>> = HashMap::new();
      for (i, n) in nodes.iter().enumerate() {
        by_kind.entry(n.kind_id()).or_default().push(i);
      }
      for _ in 0..per_src {
        let (ptext, pk) = rng.pick(&pool).clone();
        // near misses: prefer candidates of the pattern's kind
        let t = match by_kind.get(&pk) {
          Some(ix) if rng.chance(4, 5) => nodes[*rng.pick(ix)].clone(),
          _ => rng.pick(&nodes).clone(),
        };
        if subtree_size(&t) > 100 {
          continue;
        }
        let si = rng.below(5);
        plan.push(Planned { lang, src: src.clone(), ptext, start: t.range().start, end: t.range().end, kind: t.kind_id(), si });
      }
    }
  }
  // near misses of the skipping rules: the pattern is a node's own text with ONE named child removed
  // (and the comma next to it), tried on that node: only a strictness that may skip the removed child on
  // the candidate side (a comment under relaxed / signature) lets it match
  for lang in langs_for(o, 3) {
    let srcs = corpus::sources(lang, &mut rng, 3, 2500);
    for src in &srcs {
      let sg = corpus::parse(lang, src);
      let nodes: Vec<N> = corpus::all_nodes(sg.root()).into_iter()
        .filter(|n| n.is_named() && n.range().len() <= 200 && n.children().filter(|c| c.is_named()).count() >= 2 && is_sigil_free(&n.text(), lang)).collect();
      if nodes.is_empty() {
        continue;
      }
      let with_comments: Vec<N> = nodes.iter().filter(|n| n.children().any(|c| c.kind().contains("comment"))).cloned().collect();
      for k in 0..(if o.thorough { 120 } else { 40 }) {
        let t = if k % 3 == 0 && !with_comments.is_empty() { rng.pick(&with_comments).clone() } else { rng.pick(&nodes).clone() };
        if subtree_size(&t) > 60 {
          continue;
        }
        let named: Vec<N> = t.children().filter(|c| c.is_named()).collect();
        // a comment among the children is the most telling child to drop: only relaxed / signature may skip it
        let comments: Vec<N> = named.iter().filter(|c| c.kind().contains("comment")).cloned().collect();
        let c = if !comments.is_empty() && rng.chance(2, 3) { out.count("planned:drop-a-comment-child"); rng.pick(&comments).clone() } else { rng.pick(&named).clone() };
        let base = t.range().start;
        let text = t.text().to_string();
        let (mut a, mut b) = (c.range().start - base, c.range().end - base);
        let bytes = text.as_bytes();
        // swallow a following ", " or a preceding ","
        let mut j = b;
        while j < bytes.len() && (bytes[j] == b' ' || bytes[j] == b'\t') {
          j += 1;
        }
        if j < bytes.len() && bytes[j] == b',' {
          b = j + 1;
          while b < bytes.len() && bytes[b] == b' ' {
            b += 1;
          }
        } else {
          let mut i = a;
          while i > 0 && (bytes[i - 1] == b' ' || bytes[i - 1] == b'\t') {
            i -= 1;
          }
          if i > 0 && bytes[i - 1] == b',' {
            a = i - 1;
          }
        }
        if !text.is_char_boundary(a) || !text.is_char_boundary(b) {
          continue;
        }
        let ptext = format!("{}{}", &text[..a], &text[b..]);
        if ptext.trim().is_empty() {
          continue;
        }
        out.count("planned:drop-one-child");
        plan.push(Planned { lang, src: src.clone(), ptext, start: t.range().start, end: t.range().end, kind: t.kind_id(), si: 2 + rng.below(3) });
      }
    }
  }
  // a repeated `$V0` whose SECOND occurrence lines up with an anonymous token carrying the very text the first
  // occurrence bound (a named leaf such as an empty statement `;`): a named hole binds only named nodes, also
  // when the variable is already bound. Constructed, not drawn: both spans of a small common ancestor are
  // replaced by the same variable and the result is tried on that ancestor.
  for lang in langs_for(o, 3) {
    let mut srcs = corpus::sources(lang, &mut rng, 3, 2500);
    let extra: &[&str] = match lang {
      SupportLang::JavaScript | SupportLang::TypeScript | SupportLang::Tsx => &["function f() { ; return; }", "for (;;) { ; }"],
      SupportLang::Rust => &["fn f() { ; return; }"],
      SupportLang::C | SupportLang::Cpp => &["void f() { ; return; }"],
      SupportLang::Java => &["class A { void f() { ; return; } }"],
      SupportLang::CSharp => &["class A { void F() { ; return; } }"],
      SupportLang::Go => &["func f() { ; return; }"],
      SupportLang::Php => &["<?php function f() { ; return; }"],
      _ => &[],
    };
    srcs.extend(extra.iter().map(|s| s.to_string()));
    for src in &srcs {
      let sg = corpus::parse(lang, src);
      let all = corpus::all_nodes(sg.root());
      let tokens: Vec<&N> = all.iter().filter(|u| !u.is_named() && u.children().len() == 0 && !u.range().is_empty() && u.range().len() <= 8).collect();
      let leaves: Vec<&N> = all.iter().filter(|n| n.is_named() && !n.range().is_empty() && n.range().len() <= 8 && n.children().all(|c| !c.is_named())).collect();
      let mut made = 0;
      'outer: for n in &leaves {
        for u in &tokens {
          if made >= (if o.thorough { 40 } else { 12 }) {
            break 'outer;
          }
          let (nr, ur) = (n.range(), u.range());
          if nr.start < ur.end && ur.start < nr.end || n.text() != u.text() {
            continue;
          }
          // the smallest named ancestor of both
          let Some(anc) = n.ancestors().find(|a| a.is_named() && a.range().start <= ur.start && ur.end <= a.range().end) else { continue };
          if anc.range().len() > 200 || subtree_size(&anc) > 60 || !is_sigil_free(&anc.text(), lang) {
            continue;
          }
          let base = anc.range().start;
          let text = anc.text().to_string();
          let mut spans = [(nr.start - base, nr.end - base), (ur.start - base, ur.end - base)];
          spans.sort();
          let mut ptext = String::new();
          let mut at = 0;
          for (a, b) in spans {
            ptext.push_str(&text[at..a]);
            if ptext.chars().last().map_or(false, |c| c.is_alphanumeric() || c == '_') {
              ptext.push(' ');
            }
            ptext.push_str("$V0");
            if text[b..].chars().next().map_or(false, |c| c.is_alphanumeric() || c == '_') {
              ptext.push(' ');
            }
            at = b;
          }
          ptext.push_str(&text[at..]);
          made += 1;
          out.count("planned:backref-on-anonymous-token");
          for si in [1usize, rng.below(5)] {
            plan.push(Planned { lang, src: src.clone(), ptext: ptext.clone(), start: anc.range().start, end: anc.range().end, kind: anc.kind_id(), si });
          }
        }
      }
    }
  }
  // the planned cases are executed in a shuffled order ACROSS languages and sources, so that any state
  // kept between matches (caches keyed too coarsely, thread-locals) is exercised; the matcher is a pure
  // function of (pattern, node), so the model's answer does not depend on the order
  rng.shuffle(&mut plan);
  let mut parsed: HashMap<(String, String), corpus::Sg> = HashMap::new();
  for pc in &plan {
    let lang = pc.lang;
    let key = (lang.to_string(), pc.src.clone());
    if !parsed.contains_key(&key) {
      parsed.insert(key.clone(), corpus::parse(lang, &pc.src));
    }
    let sg = &parsed[&key];
    let Some(t) = corpus::all_nodes(sg.root()).into_iter().find(|n| n.range().start == pc.start && n.range().end == pc.end && n.kind_id() == pc.kind) else { continue };
    let ptext = pc.ptext.clone();
    let si = pc.si;
    {
      {
        let Ok(Ok(p0)) = catch_unwind(AssertUnwindSafe(|| Pattern::try_new(&ptext, lang))) else {
          out.count("pattern-rejected");
          continue;
        };
        if matches!(p0.node, PatternNode::MetaVar { meta_var: MetaVariable::Multiple | MetaVariable::MultiCapture(_) }) {
          continue; // a bare ellipsis at the root is a debug_assert in the matcher, not a pattern
        }
        let p = p0.with_strictness(strict_of(si));
        let what = format!("c03 lang={lang} strictness={} pattern={ptext:?} code={:?}", STRICT_NAMES[si], t.text());
        let (matched, len) = tie_match(&mut out, &p, &t, &what);
        out.checked();
        out.count(if matched { "matched" } else { "not-matched" });
        if matched {
          matched_n += 1;
          out.nontrivial(&(lang.to_string(), ptext.clone(), si, t.range().start, pc.src.len()));
          if !sampled {
            sampled = true;
            out.sample(json!({"lang": lang.to_string(), "strictness": STRICT_NAMES[si], "pattern": ptext, "code": t.text(), "matched": true}));
          }
          let mut al = Aligner { si, memo: HashMap::new(), _p: std::marker::PhantomData };
          if !al.aligned(&p.node, &t) {
            out.oracle_fail("", &format!("{lang} [{}] pattern {ptext:?} is reported to match {:?} but no alignment allowed by the strictness rules exists", STRICT_NAMES[si], t.text()),
              json!({"stream": "c03", "lang": lang.to_string(), "strictness": STRICT_NAMES[si], "pattern": ptext, "code": t.text()}));
          }
        }
        if let Some(l) = len {
          let start = t.range().start;
          let ok = l <= t.range().len() && t.dfs().any(|d| d.range().end == start + l);
          if !ok {
            out.oracle_fail("", &format!("{lang} [{}] pattern {ptext:?} on {:?}: matched length {l} exceeds the node or splits a child", STRICT_NAMES[si], t.text()),
              json!({"stream": "c03-len", "lang": lang.to_string(), "strictness": STRICT_NAMES[si], "pattern": ptext, "code": t.text(), "len": l}));
          }
        }
      }
    }
  }
  out.set("reported_matches", json!(matched_n));
  out.finish(
    "patterns cut from nodes of the corpus (with holes, ellipses, repeated and unnamed-capture variables) tried on other nodes of the same language, preferably of the pattern's root kind (near misses), \
     at a random strictness, incl. one mutated (error-containing) source per language; outcome, environment and matched length are tie cases; every reported match is checked against an independent \
     alignment relation (dynamic programme over order-preserving partial matchings) and the length against the descendants' end offsets. non-trivial = the pattern matched",
  );
  let _ = dump::pnode_size;
}

/// C04 (coherence): does_node_match_exactly, observed through MetaVarEnv::insert of the same name twice,
/// on pairs of nodes of one document: same kind, preferring pairs whose child-kind sequences are equal or
/// one a strict prefix of the other (the near misses of a structural comparison), plus named leaves
/// against inner nodes with the same text.
/// the same `$$$NAME` twice in one pattern: both occurrences must capture structurally identical lists — also when
/// the occurrence tried first captures the EMPTY list (an existing empty binding is a binding)
fn repeated_multi(out: &mut Out) {
  // (code, must the pattern match?)
  let calls: &[(&str, bool)] = &[
    ("[f(), g()]", true), ("[f(1), g(1)]", true), ("[f(1, 2), g(1, 2)]", true), ("[f(), g(1)]", false), ("[f(1), g()]", false),
    ("[f(1), g(2)]", false), ("[f(1, 2), g(1)]", false), ("[f(), g(1, 2)]", false), ("[f(a), g(a)]", true), ("[f(a), g(b)]", false),
  ];
  for lang in [SupportLang::JavaScript, SupportLang::TypeScript, SupportLang::Tsx, SupportLang::Python, SupportLang::Ruby, SupportLang::Swift, SupportLang::Kotlin] {
    let Ok(Ok(p0)) = catch_unwind(AssertUnwindSafe(|| Pattern::try_new("[f($$$A), g($$$A)]", lang))) else { continue };
    for (code, want) in calls {
      let sg = corpus::parse(lang, code);
      if corpus::has_error(&sg.root()) {
        continue;
      }
      let Some(t) = sg.root().dfs().find(|n| n.text() == *code && n.children().count() >= 3) else { continue };
      for si in 0..5 {
        let p = p0.clone().with_strictness(strict_of(si));
        let what = format!("c04x-multi lang={lang} strictness={} pattern=\"[f($$$A), g($$$A)]\" code={code:?}", STRICT_NAMES[si]);
        let (matched, _) = tie_match(out, &p, &t, &what);
        out.checked();
        out.count("repeated-multi-variable");
        if matched {
          out.nontrivial(&(lang.to_string(), code.to_string(), si));
        }
        if matched != *want {
          out.oracle_fail("", &format!("{lang} [{}]: pattern `[f($$$A), g($$$A)]` on `{code}` {} but the two occurrences of $$$A {}", STRICT_NAMES[si],
            if matched { "matches" } else { "does not match" }, if *want { "capture identical lists" } else { "would have to capture different lists" }),
            json!({"stream": "c04x-multi", "lang": lang.to_string(), "code": code, "strictness": STRICT_NAMES[si]}));
        }
      }
    }
  }
}

pub fn run_c04x(o: &Opts) {
  use ast_grep_core::meta_var::MetaVarEnv;
  let mut out = Out::new(&o.out);
  repeated_multi(&mut out);
  let mut rng = Rng::new(o.seed ^ 0xc04e);
  let nsrc = if o.thorough { 8 } else { 3 };
  let mut sampled = false;
  for lang in SupportLang::all_langs().iter().copied() {
    let mut srcs = corpus::sources(lang, &mut rng, nsrc, 1500);
    if let Some(s0) = srcs.first().cloned() {
      srcs.push(corpus::mutate(&s0, &mut rng));
    }
    for src in &srcs {
      let sg = corpus::parse(lang, src);
      let root = sg.root();
      let nodes = corpus::all_nodes(root.clone());
      if nodes.len() < 4 || nodes.len() > 1200 {
        continue;
      }
      let td = dump::dump_tree_at(&root, 0);
      let sig = |n: &N| -> Vec<u16> { n.children().map(|c| c.kind_id()).collect() };
      let mut by_kind: HashMap<u16, Vec<usize>> = HashMap::new();
      for (i, n) in nodes.iter().enumerate() {
        by_kind.entry(n.kind_id()).or_default().push(i);
      }
      let mut pairs: Vec<(usize, usize)> = vec![];
      for ix in by_kind.values() {
        if ix.len() < 2 {
          continue;
        }
        let sigs: Vec<Vec<u16>> = ix.iter().map(|i| sig(&nodes[*i])).collect();
        let mut near = vec![];
        for a in 0..ix.len().min(40) {
          for b in 0..ix.len().min(40) {
            if a != b && sigs[a].len() <= sigs[b].len() && sigs[b][..sigs[a].len()] == sigs[a][..] {
              near.push((ix[a], ix[b]));
            }
          }
        }
        rng.shuffle(&mut near);
        for p in near.into_iter().take(12) {
          pairs.push(p);
          if rng.chance(1, 2) {
            pairs.push((p.1, p.0));
          }
        }
        for _ in 0..3 {
          pairs.push((*rng.pick(ix), *rng.pick(ix)));
        }
      }
      // same text, different node (a leaf against the inner node that wraps it)
      for (i, n) in nodes.iter().enumerate() {
        if let Some(p) = n.parent() {
          if p.range() == n.range() {
            if let Some(j) = nodes.iter().position(|m| m.node_id() == p.node_id()) {
              pairs.push((i, j));
              pairs.push((j, i));
            }
          }
        }
      }
      pairs.truncate(if o.thorough { 4000 } else { 600 });
      let mut expected = vec![];
      let mut wire_pairs = vec![];
      for (a, b) in &pairs {
        let (x, y) = (nodes[*a].clone(), nodes[*b].clone());
        let r = catch_unwind(AssertUnwindSafe(|| {
          let mut env = MetaVarEnv::new();
          env.insert("A", x.clone()).is_some() && env.insert("A", y.clone()).is_some()
        }));
        out.checked();
        match r {
          Ok(b2) => {
            expected.push(Val::b(b2));
            out.count(if b2 { "identical" } else { "different" });
            if b2 && x.node_id() != y.node_id() {
              out.nontrivial(&(lang.to_string(), src.len(), x.range().start, y.range().start));
              // direct oracle: structurally identical nodes of the same kind have the same shape
              let shape_ok = x.is_named_leaf() || y.is_named_leaf() || (x.kind_id() == y.kind_id() && x.children().count() == y.children().count());
              if !shape_ok {
                out.oracle_fail("", &format!("{lang}: a variable bound to {:?} is re-bound to {:?}: same kind but a different number of children", x.text(), y.text()),
                  json!({"stream": "c04x", "lang": lang.to_string(), "first": x.text(), "second": y.text()}));
              }
              if !sampled {
                sampled = true;
                out.sample(json!({"lang": lang.to_string(), "first": x.text(), "second": y.text(), "identical": true}));
              }
            }
          }
          Err(_) => expected.push(Val::err("panic")),
        }
        wire_pairs.push(vl![Val::n(td.ids[&x.node_id()]), Val::n(td.ids[&y.node_id()])]);
      }
      if pairs.is_empty() {
        continue;
      }
      let input = vl![Val::str_bytes(src), td.val.clone(), Val::L(wire_pairs)];
      out.case(12, &input, &Val::L(expected), &format!("c04x lang={lang} pairs={} source={}", pairs.len(), serde_json::to_string(&src[..src.len().min(300)]).unwrap()));
    }
  }
  out.finish("pairs of nodes of one real tree (same kind with equal or prefix-related child-kind sequences, random same-kind pairs, a node against the parent with the same range), all 23 languages: \
              binding one variable name to the first and then to the second node through MetaVarEnv::insert succeeds iff the model's does_node_match_exactly says so; non-trivial = two different nodes are accepted as identical");
}
