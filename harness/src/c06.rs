//! C06 — rewrites touch only what was matched: the library's edits (Node::replace_all, NodeMatch::make_edit
//! with string and object fixes, expandStart/expandEnd, rewriters) are well-formed and local.
use crate::c01::load_rules;
use crate::c18::gen_fix_rules;
use crate::corpus::{self, N};
use crate::out::Out;
use crate::rng::Rng;
use crate::rulegen::harvest;
use crate::Opts;
use ast_grep_core::matcher::MatcherExt;
use ast_grep_core::Language;
use ast_grep_language::SupportLang;
use serde_json::json;
use std::panic::{catch_unwind, AssertUnwindSafe};

fn is_boundary(s: &str, i: usize) -> bool {
  i <= s.len() && s.is_char_boundary(i)
}

pub fn run(o: &Opts) {
  let mut out = Out::new(&o.out);
  let mut rng = Rng::new(o.seed ^ 0xc06);
  let nsrc = if o.thorough { 6 } else { 2 };
  let per_src = if o.thorough { 25 } else { 8 };
  let mut sampled = false;
  for lang in SupportLang::all_langs().iter().copied() {
    let mut srcs = corpus::sources(lang, &mut rng, nsrc, 900);
    if let Some(s0) = srcs.first().cloned() {
      srcs.push(s0.replace('\n', "\r\n"));
      srcs.push(corpus::mutate(&s0, &mut rng));
    }
    for src in &srcs {
      let sg = corpus::parse(lang, src);
      let root = sg.root();
      let nodes: Vec<N> = corpus::all_nodes(root.clone());
      if nodes.len() < 4 || nodes.len() > 900 {
        continue;
      }
      let ing = harvest(lang, &nodes, &mut rng);
      for _ in 0..per_src {
        let frs = gen_fix_rules(&mut rng, lang, &ing.patterns, 1);
        let Some(fr) = frs.first() else { continue };
        let Some(rules) = load_rules(&[fr.yaml.clone()]) else {
          out.count("rule:rejected");
          continue;
        };
        let rule = &rules[0];
        let Some(fixer) = rule.matcher.fixer.as_ref() else { continue };
        let what = format!("c06 lang={lang} rule={} source={}", serde_json::to_string(&fr.yaml).unwrap(), serde_json::to_string(&src[..src.char_indices().nth(300).map(|x| x.0).unwrap_or(src.len())]).unwrap());
        // every match: make_edit
        let mut n_edits = 0;
        for n in &nodes {
          let Some(nm) = rule.matcher.match_node(n.clone()) else { continue };
          let r = catch_unwind(AssertUnwindSafe(|| nm.make_edit(&rule.matcher, fixer)));
          out.checked();
          let Ok(e) = r else {
            out.oracle_fail("", &format!("make_edit panics: {what}"), json!({"stream": "c06", "rule": fr.yaml, "source": src}));
            break;
          };
          n_edits += 1;
          let (s, e_end) = (e.position, e.position + e.deleted_length);
          let (ns, ne) = (n.range().start, n.range().end);
          let in_file = s <= e_end && e_end <= src.len();
          let on_b = in_file && is_boundary(src, s) && is_boundary(src, e_end);
          let local = if fr.expands { s <= ns && ns <= e_end } else { s == ns && e_end <= ne };
          let text_ok = std::str::from_utf8(&e.inserted_text).is_ok();
          if !(in_file && on_b && local && text_ok) {
            out.oracle_fail("", &format!("the edit for the match {ns}..{ne} replaces {s}..{e_end} (inside the file: {in_file}, on character boundaries: {on_b}, local: {local}, expansion configured: {}, replacement valid UTF-8: {text_ok}): {what}", fr.expands),
              json!({"stream": "c06-edit", "rule": fr.yaml, "source": src, "match": [ns, ne], "edit": [s, e_end]}));
            break;
          }
        }
        // replace_all: ordered, disjoint (non-expanding), result valid UTF-8 with everything outside preserved
        let r = catch_unwind(AssertUnwindSafe(|| root.replace_all(&rule.matcher, fixer)));
        out.checked();
        let Ok(edits) = r else {
          out.oracle_fail("", &format!("replace_all panics: {what}"), json!({"stream": "c06", "rule": fr.yaml, "source": src}));
          continue;
        };
        out.count(if edits.is_empty() { "replace_all:no-edit" } else if edits.len() == 1 { "replace_all:one-edit" } else { "replace_all:several-edits" });
        if !edits.is_empty() {
          out.nontrivial(&(lang.to_string(), fr.yaml.clone(), src.len()));
          if !sampled {
            sampled = true;
            out.sample(json!({"lang": lang.to_string(), "rule": fr.yaml, "edits": edits.len(), "matches": n_edits}));
          }
        }
        let mut pos = 0usize;
        let mut ok = true;
        let mut rebuilt: Vec<u8> = vec![];
        for e in &edits {
          let (s, en) = (e.position, e.position + e.deleted_length);
          if !fr.expands && s < pos {
            out.oracle_fail("", &format!("replace_all edits overlap or are out of order at {s} (previous edit ends at {pos}): {what}"), json!({"stream": "c06-disjoint", "rule": fr.yaml, "source": src}));
            ok = false;
            break;
          }
          if s < pos || en > src.len() || s > en {
            ok = false; // expanding edits may overlap: the CLI's overlap filter handles them (C18); nothing to splice here
            break;
          }
          rebuilt.extend_from_slice(&src.as_bytes()[pos..s]);
          rebuilt.extend_from_slice(&e.inserted_text);
          pos = en;
        }
        if ok {
          rebuilt.extend_from_slice(&src.as_bytes()[pos..]);
          if std::str::from_utf8(&rebuilt).is_err() {
            out.oracle_fail("", &format!("the rewritten text is not valid UTF-8: {what}"), json!({"stream": "c06-utf8", "rule": fr.yaml, "source": src}));
          }
        }
      }
    }
  }
  rewriters(o, &mut out, &mut rng);
  lsp_fix_all_disjoint(o, &mut out);
  out.finish("fix rules cut from the tree (string and object form; empty, wrapping, duplicating and multi-byte templates; expandStart / expandEnd) on corpus, CRLF and token-mutated sources of all 23 languages: \
              NodeMatch::make_edit for every match (range inside the file, on character boundaries, starting at the node and inside it unless an expansion is configured, replacement valid UTF-8) and \
              Node::replace_all (ordered, disjoint, spliced result valid UTF-8); `rewrite` transformations (source $V or $$$V, one rewriter with a kind rule and a plain or expanding fix): the transformed value against the captured text with the rewriter's own edits spliced in. non-trivial = replace_all produced an edit");
}

/// `rewrite` transformations: the transformed value must be the captured text with the rewriter's edits applied
fn rewriters(o: &Opts, out: &mut Out, rng: &mut Rng) {
  let per_src = if o.thorough { 60 } else { 30 };
  for lang in crate::c02::langs_for(o, 6) {
    let srcs = corpus::clean_sources(lang, rng, if o.thorough { 5 } else { 2 }, 800);
    for src in &srcs {
      let sg = corpus::parse(lang, src);
      let nodes: Vec<N> = corpus::all_nodes(sg.root());
      let cands: Vec<&N> = nodes.iter().filter(|n| n.is_named() && n.children().filter(|c| c.is_named()).count() >= 2 && n.range().len() <= 120 && !n.text().contains('$') && !n.text().contains('\n')).collect();
      if cands.is_empty() {
        continue;
      }
      for _ in 0..per_src {
        let x = (*rng.pick(&cands)).clone();
        let with_run = rng.chance(1, 2);
        let cut = crate::c02::make_cut(&x, rng, with_run);
        let (var, captured): (String, Vec<N>) = match (&cut.run, cut.holes.first()) {
          (Some((v, ns)), _) if !ns.is_empty() => (format!("$$${v}"), ns.clone()),
          (_, Some((v, n))) => (format!("${v}"), vec![n.clone()]),
          _ => continue,
        };
        // a kind that occurs inside the captured nodes (the rewriter matches) or one that does not (it must not change anything)
        let inner: Vec<N> = captured.iter().flat_map(|n| n.dfs()).filter(|n| n.is_named() && n.kind() != "ERROR").collect();
        // a capture of several nodes that the rewriters leave untouched must come back whole: for runs, half of the
        // cases use the root's kind, which occurs nowhere inside a capture
        let kind = if captured.len() >= 2 && rng.chance(1, 2) {
          out.count("rewrite:run-with-rewriter-that-matches-nothing");
          sg.root().kind().to_string()
        } else if rng.chance(3, 4) && !inner.is_empty() { rng.pick(&inner).kind().to_string() } else { x.kind().to_string() };
        let q = |s: &str| serde_json::to_string(s).unwrap();
        let fix_top = match rng.below(4) {
          0 => "fix: X\n".to_string(),
          1 => "fix: \"\"\n".to_string(),
          2 => "fix:\n  template: Y\n  expandEnd: {regex: ','}\n".to_string(),
          _ => "fix:\n  template: Z\n  expandStart: {regex: '.'}\n".to_string(),
        };
        let fix: String = fix_top.lines().map(|l| format!("  {l}\n")).collect();
        let yaml = format!("id: rr\nlanguage: {lang}\nmessage: m\nrule:\n  pattern: {}\nrewriters:\n- id: rw\n  rule:\n    kind: {kind}\n{fix}transform:\n  NEW:\n    rewrite:\n      source: {}\n      rewriters: [rw]\nfix: {}\n",
          q(&cut.text), q(&var), q("<$NEW>"));
        let rw_yaml = format!("id: rwonly\nlanguage: {lang}\nmessage: m\nrule:\n  kind: {kind}\n{fix_top}");
        let (Some(rules), Some(rws)) = (load_rules(&[yaml.clone()]), load_rules(&[rw_yaml.clone()])) else {
          out.count("rewrite:rule-rejected");
          continue;
        };
        let (rule, rw) = (&rules[0], &rws[0]);
        let Some(rwfix) = rw.matcher.fixer.as_ref() else { continue };
        let r = catch_unwind(AssertUnwindSafe(|| rule.matcher.match_node(x.clone())));
        out.checked();
        let what = format!("c06-rewrite lang={lang} rule={} node={:?}", q(&yaml), x.text());
        let Ok(m) = r else {
          out.oracle_fail("", &format!("the rewrite transformation panics: {what}"), json!({"stream": "c06-rewrite", "rule": yaml, "source": src}));
          continue;
        };
        let Some(nm) = m else {
          out.count("rewrite:pattern-does-not-rematch");
          continue;
        };
        let Some(got) = nm.get_env().get_transformed("NEW").map(|b| String::from_utf8_lossy(b).to_string()) else {
          out.count("rewrite:no-transformed-value");
          continue;
        };
        // expected: the captured text with the rewriter's own edits, in discovery order, skipping overlaps and edits leaving the text
        let bound: Vec<N> = if var.starts_with("$$$") { nm.get_env().get_multiple_matches(&var[3..]) } else { nm.get_env().get_match(&var[1..]).cloned().into_iter().collect() };
        if bound.is_empty() {
          continue;
        }
        let (t0, t1) = (bound[0].range().start, bound.last().unwrap().range().end);
        let text = &src.as_bytes()[t0..t1];
        let mut want: Vec<u8> = vec![];
        let mut pos = 0usize;
        let mut n_applied = 0;
        for cn in &bound {
          for d in cn.dfs() {
            if let Some(dm) = rw.matcher.match_node(d.clone()) {
              let e = dm.make_edit(&rw.matcher, rwfix);
              if e.position < t0 || e.position + e.deleted_length > t1 {
                continue;
              }
              let p = e.position - t0;
              if pos > p {
                continue;
              }
              want.extend_from_slice(&text[pos..p]);
              want.extend_from_slice(&e.inserted_text);
              pos = p + e.deleted_length;
              n_applied += 1;
            }
          }
        }
        want.extend_from_slice(&text[pos..]);
        let want = String::from_utf8_lossy(&want).to_string();
        out.count(if n_applied == 0 { "rewrite:no-inner-edit" } else { "rewrite:inner-edits" });
        if n_applied > 0 {
          out.nontrivial(&(lang.to_string(), yaml.clone(), x.range().start));
        }
        // the stored value is re-indented relative to the source variable's column: compare modulo that only for single-line captures
        if !want.contains('\n') && got != want {
          out.oracle_fail("", &format!("the transformed value is {got:?}, the captured text with the rewriter's edits applied is {want:?}: {what}"),
            json!({"stream": "c06-rewrite", "rule": yaml, "source": src}));
        }
      }
    }
  }
}


/// The language server's fix-all: the edits proposed for one document must be ordered and disjoint — also when
/// `expandStart` / `expandEnd` make the replaced ranges of neighbouring matches share text.
fn lsp_fix_all_disjoint(o: &Opts, out: &mut Out) {
  use crate::cli::fresh_dir;
  use crate::lsp::{did_open, run_lsp};
  let dir = fresh_dir(&o.out, "lsp_fixall");
  let cases: Vec<(&str, &str)> = vec![
    ("id: drop\nlanguage: TypeScript\nmessage: m\nrule:\n  kind: identifier\n  regex: ^x$\n  inside: {kind: array}\nfix:\n  template: ''\n  expandStart: {regex: ','}\n  expandEnd: {regex: ','}\n",
     "let v = [x, x, x]\nlet w = [a, x, x, b, x]\nlet u = [x]\n"),
    ("id: arg\nlanguage: TypeScript\nmessage: m\nrule:\n  kind: number\n  inside: {kind: arguments}\nfix:\n  template: 'N'\n  expandEnd: {regex: ','}\n  expandStart: {regex: ','}\n",
     "f(1, 2, 3, 4)\ng(1)\nh(a, 1, 2)\n"),
    ("id: plain\nlanguage: TypeScript\nmessage: m\nrule:\n  pattern: foo($A)\nfix: bar($A)\n", "foo(foo(1)); foo(2)\n"),
    // multi-byte text before the replaced range on the same line: the edit range is in characters
    ("id: wide\nlanguage: TypeScript\nmessage: m\nrule:\n  kind: pair\n  regex: '^b:'\nfix:\n  template: ''\n  expandEnd: {regex: ','}\n",
     "var o = { ä: 1, b: 2, c: 3 }\nvar p = { 日本: 1, b: 2, ü: 3 }\nvar q = { b: 2, c: 3 }\n"),
  ];
  for (yaml, src) in cases {
    let Some(rules) = load_rules(&[yaml.to_string()]) else { continue };
    let uri = format!("file://{}/a.ts", std::fs::canonicalize(&dir).unwrap().to_string_lossy());
    let fixall = json!({"jsonrpc": "2.0", "id": 10, "method": "textDocument/codeAction", "params": {"textDocument": {"uri": uri}, "range": {"start": {"line": 0, "character": 0}, "end": {"line": 0, "character": 0}}, "context": {"diagnostics": [], "only": ["source.fixAll"]}}});
    out.checked();
    out.count("lsp:fix-all-disjointness");
    match run_lsp(rules, &dir, &[did_open(&uri, "typescript", 1, src), fixall]) {
      Ok(resp) => {
        // LSP positions count characters (UTF-16 units; the texts here stay in the basic plane)
        let off = |line: u64, ch: u64| -> usize {
          let start: usize = src.split_inclusive('\n').take(line as usize).map(|l| l.len()).sum::<usize>();
          let rest = &src[start..];
          start + rest.char_indices().nth(ch as usize).map(|x| x.0).unwrap_or(rest.len())
        };
        let mut edits: Vec<(usize, usize)> = vec![];
        for m in resp.get(1).unwrap_or(&vec![]).iter().filter(|m| m["id"] == 10 && m.get("result").is_some()) {
          for a in m["result"].as_array().cloned().unwrap_or_default() {
            for e in a["edit"]["changes"][&uri].as_array().cloned().unwrap_or_default() {
              let r = &e["range"];
              edits.push((off(r["start"]["line"].as_u64().unwrap_or(0), r["start"]["character"].as_u64().unwrap_or(0)), off(r["end"]["line"].as_u64().unwrap_or(0), r["end"]["character"].as_u64().unwrap_or(0))));
            }
          }
        }
        if !edits.is_empty() {
          out.nontrivial(&format!("{yaml}{edits:?}"));
        }
        let listed = edits.clone();
        // the same edits as the library computes for the rule (skipping those that overlap an earlier one)
        {
          let Some(rules2) = load_rules(&[yaml.to_string()]) else { continue };
          let r0 = &rules2[0];
          if let Some(fx) = r0.matcher.fixer.as_ref() {
            let g = SupportLang::TypeScript.ast_grep(src);
            let mut lib: Vec<(usize, usize)> = vec![];
            let mut last = 0usize;
            for nm in g.root().find_all(&r0.matcher) {
              let e = nm.make_edit(&r0.matcher, fx);
              if e.position < last {
                continue;
              }
              last = e.position + e.deleted_length;
              lib.push((e.position, e.position + e.deleted_length));
            }
            let mut got_sorted = listed.clone();
            got_sorted.sort();
            if got_sorted != lib {
              out.oracle_fail("", &format!("the language server's fix-all replaces the ranges {got_sorted:?}; the library's edits for the same rule are {lib:?}; source {src:?}"),
                json!({"stream": "c06-lsp-fixall", "rule": yaml, "source": src}));
            }
          }
        }
        edits.sort();
        let overlapping = edits.windows(2).find(|w| w[1].0 < w[0].1);
        if let Some(w) = overlapping {
          out.oracle_fail("", &format!("the language server's fix-all proposes overlapping edits {:?} and {:?} for one document (all: {listed:?}); source {src:?}", w[0], w[1]),
            json!({"stream": "c06-lsp-fixall", "rule": yaml, "source": src}));
        } else if listed != edits {
          out.oracle_fail("", &format!("the language server's fix-all proposes its edits out of order: {listed:?}; source {src:?}"), json!({"stream": "c06-lsp-fixall", "rule": yaml, "source": src}));
        }
      }
      Err(e) => out.oracle_fail("", &format!("language server failed: {e}"), json!({"stream": "c06-lsp-fixall"})),
    }
  }
}
