//! C16 — everything the CLI prints about a match agrees with the bytes on disk.
//! The CLI's JSON (three styles) and plain-text output are parsed independently and every field is
//! recomputed from the file bytes.
use crate::cli::{fresh_dir, sg};
use crate::corpus;
use crate::out::Out;
use crate::rng::Rng;
use crate::rulegen::harvest;
use crate::Opts;
use ast_grep_language::SupportLang;
use serde_json::{json, Value};

fn line_col(bytes: &[u8], off: usize) -> (usize, usize) {
  let pre = &bytes[..off.min(bytes.len())];
  let line = pre.iter().filter(|b| **b == b'\n').count();
  let ls = pre.iter().rposition(|b| *b == b'\n').map(|i| i + 1).unwrap_or(0);
  let col = String::from_utf8_lossy(&pre[ls..]).chars().count();
  (line, col)
}

/// whole lines from `before` lines above the line of `start` to `after` lines below the line of `end`, without the last newline
fn whole_lines(bytes: &[u8], start: usize, end: usize, before: usize, after: usize) -> (usize, usize) {
  let mut s = bytes[..start].iter().rposition(|b| *b == b'\n').map(|i| i + 1).unwrap_or(0);
  for _ in 0..before {
    if s == 0 {
      break;
    }
    s = bytes[..s - 1].iter().rposition(|b| *b == b'\n').map(|i| i + 1).unwrap_or(0);
  }
  let end = end.min(bytes.len());
  let mut e = bytes[end..].iter().position(|b| *b == b'\n').map(|i| end + i).unwrap_or(bytes.len());
  for _ in 0..after {
    if e >= bytes.len() {
      break;
    }
    e = bytes[e + 1..].iter().position(|b| *b == b'\n').map(|i| e + 1 + i).unwrap_or(bytes.len());
  }
  (s, e)
}

fn check_range(bytes: &[u8], r: &Value, text: Option<&str>) -> Result<(usize, usize), String> {
  let s = r["byteOffset"]["start"].as_u64().ok_or("no byteOffset.start")? as usize;
  let e = r["byteOffset"]["end"].as_u64().ok_or("no byteOffset.end")? as usize;
  if s > e || e > bytes.len() {
    return Err(format!("byteOffset {s}..{e} is not a range of the file ({} bytes)", bytes.len()));
  }
  if let Some(t) = text {
    if t.as_bytes() != &bytes[s..e] {
      return Err(format!("text {:?} is not the file bytes at {s}..{e} ({:?})", t, String::from_utf8_lossy(&bytes[s..e])));
    }
  }
  for (name, off) in [("start", s), ("end", e)] {
    let (l, c) = line_col(bytes, off);
    let gl = r[name]["line"].as_u64().unwrap_or(u64::MAX) as usize;
    let gc = r[name]["column"].as_u64().unwrap_or(u64::MAX) as usize;
    if (gl, gc) != (l, c) {
      return Err(format!("{name} position ({gl}, {gc}) of offset {off}; the bytes give line {l}, character column {c}"));
    }
  }
  Ok((s, e))
}

fn check_record(bytes: &[u8], rec: &Value, before: usize, after: usize) -> Result<(), String> {
  let text = rec["text"].as_str().ok_or("no text")?;
  let (s, e) = check_range(bytes, &rec["range"], Some(text))?;
  let lines = rec["lines"].as_str().ok_or("no lines")?;
  let (ls, le) = whole_lines(bytes, s, e, before, after);
  if lines.as_bytes() != &bytes[ls..le.max(e)] {
    return Err(format!("lines {:?} are not the whole lines {ls}..{} covering the match with context -B{before} -A{after} ({:?})", lines, le.max(e), String::from_utf8_lossy(&bytes[ls..le.max(e)])));
  }
  let lead = rec["charCount"]["leading"].as_u64().unwrap_or(u64::MAX) as usize;
  let trail = rec["charCount"]["trailing"].as_u64().unwrap_or(u64::MAX) as usize;
  let wl = String::from_utf8_lossy(&bytes[ls..s]).chars().count();
  let wt = String::from_utf8_lossy(&bytes[e.min(le.max(e))..le.max(e)]).chars().count();
  if (lead, trail) != (wl, wt) {
    return Err(format!("charCount ({lead}, {trail}), the bytes give ({wl}, {wt})"));
  }
  if let Some(mv) = rec.get("metaVariables") {
    if let Some(single) = mv["single"].as_object() {
      for (k, v) in single {
        check_range(bytes, &v["range"], v["text"].as_str()).map_err(|m| format!("metaVariables.single.{k}: {m}"))?;
      }
    }
    if let Some(multi) = mv["multi"].as_object() {
      for (k, vs) in multi {
        for v in vs.as_array().map(|a| a.as_slice()).unwrap_or(&[]) {
          check_range(bytes, &v["range"], v["text"].as_str()).map_err(|m| format!("metaVariables.multi.{k}: {m}"))?;
        }
      }
    }
  }
  if let Some(labels) = rec.get("labels").and_then(|l| l.as_array()) {
    for v in labels {
      check_range(bytes, &v["range"], v["text"].as_str()).map_err(|m| format!("labels: {m}"))?;
    }
  }
  if let Some(ro) = rec.get("replacementOffsets") {
    let rs = ro["start"].as_u64().unwrap_or(u64::MAX) as usize;
    let re = ro["end"].as_u64().unwrap_or(u64::MAX) as usize;
    if rs > re || re > bytes.len() || std::str::from_utf8(&bytes[..rs]).is_err() || std::str::from_utf8(&bytes[..re]).is_err() {
      return Err(format!("replacementOffsets {rs}..{re} is not a valid range of the file on character boundaries"));
    }
    if rec.get("replacement").and_then(|r| r.as_str()).is_none() {
      return Err("replacementOffsets without replacement".into());
    }
  }
  Ok(())
}

pub fn variants(src: &str, rng: &mut Rng) -> Vec<(String, &'static str)> {
  let mut v = vec![(src.to_string(), "plain")];
  v.push((src.replace('\n', "\r\n"), "crlf"));
  v.push((src.trim_end_matches('\n').to_string(), "no-trailing-newline"));
  // multi-byte characters in front of code on the same line: turn line starts into a block comment with wide text
  let mb: String = src.lines().map(|l| if rng.chance(1, 3) && !l.trim().is_empty() { format!("/* é日😀 */ {l}") } else { l.to_string() }).collect::<Vec<_>>().join("\n");
  v.push((mb, "multi-byte-prefix"));
  // a very long first line
  v.push((format!("/* {} */ {}", "x".repeat(3000), src), "long-line"));
  // long runs of multi-byte characters on the line of a match: hundreds of continuation bytes before a column
  let wide = match rng.below(3) { 0 => "é".repeat(300), 1 => "日本語".repeat(60), _ => format!("{}{}", "😀".repeat(90), "ö".repeat(40)) };
  v.push((format!("/* {wide} */ {}", src), "long-wide-line"));
  // a file saved with a byte order mark: three bytes (one character) in front of the first token
  v.push((format!("{}{}", '\u{feff}', src.trim_start()), "byte-order-mark"));
  v
}

pub fn run(o: &Opts) {
  let mut out = Out::new(&o.out);
  let mut rng = Rng::new(o.seed ^ 0xc16);
  let mut sampled = false;
  // languages with /* */ comments so that the variants stay parseable
  let langs = [SupportLang::JavaScript, SupportLang::TypeScript, SupportLang::Rust, SupportLang::Go, SupportLang::Java, SupportLang::C, SupportLang::CSharp, SupportLang::Kotlin, SupportLang::Css];
  let nl = if o.thorough { langs.len() } else { 3 };
  for k in 0..nl {
    let lang = langs[(o.seed as usize + k * 2) % langs.len()];
    let ext = corpus::lang_ext(lang);
    let lname = lang.to_string();
    let srcs = corpus::sources(lang, &mut rng, if o.thorough { 4 } else { 2 }, 600);
    for (si, src) in srcs.iter().enumerate() {
      let sg0 = corpus::parse(lang, src);
      let nodes0 = corpus::all_nodes(sg0.root());
      let ing = harvest(lang, &nodes0, &mut rng);
      if ing.patterns.is_empty() {
        continue;
      }
      for (vi, (text, vname)) in variants(src, &mut rng).into_iter().enumerate() {
        let dir = fresh_dir(&o.out, &format!("p_{lang}_{si}_{vi}"));
        let file = format!("a.{ext}");
        std::fs::write(dir.join(&file), &text).unwrap();
        let bytes = text.as_bytes();
        // literal patterns for one-line nodes whose OWN text has multi-byte characters (strings, comments,
        // identifiers): their end column is a character column too
        let wide_nodes: Vec<String> = nodes0.iter().filter(|n| n.is_named() && !n.text().is_ascii() && !n.text().contains('\n') && n.range().len() <= 80 && !n.text().contains('$') && n.children().count() <= 6)
          .map(|n| n.text().to_string()).collect();
        for round in 0..(if o.thorough { 6 } else { 4 }) {
          let (ptext, sel) = if round == 0 && !wide_nodes.is_empty() { out.count("pattern:one-line-node-with-multi-byte-text"); (rng.pick(&wide_nodes).clone(), None) } else { rng.pick(&ing.patterns).clone() };
          if sel.is_some() || ptext.starts_with('-') {
            continue;
          }
          let Ok(Ok(pat)) = std::panic::catch_unwind(|| ast_grep_core::Pattern::try_new(&ptext, lang)) else { continue };
          let style = *rng.pick(&["pretty", "stream", "compact"]);
          let (before, after, ctx): (usize, usize, Vec<String>) = match rng.below(5) {
            0 => { let n = 1 + rng.below(3); (0, n, vec!["-A".into(), n.to_string()]) }
            1 => { let n = 1 + rng.below(3); (n, 0, vec!["-B".into(), n.to_string()]) }
            2 => { let n = 1 + rng.below(3); (n, n, vec!["-C".into(), n.to_string()]) }
            _ => (0, 0, vec![]),
          };
          let rewrite = if rng.chance(1, 3) { Some("REPL".to_string()) } else { None };
          let js = format!("--json={style}");
          let mut args: Vec<&str> = vec!["run", "-p", &ptext, "-l", &lname, &js];
          for c in &ctx {
            args.push(c);
          }
          if let Some(r) = &rewrite {
            args.push("-r");
            args.push(r);
          }
          args.push(&file);
          let r = sg(&dir, &args, None, 30);
          let what = format!("sg {} (file variant {vname}, {} bytes)", args.join(" "), bytes.len());
          out.checked();
          if r.timed_out || !matches!(r.code, Some(0) | Some(1)) {
            out.oracle_fail("", &format!("{what}: exit {:?} timed_out={} stderr={}", r.code, r.timed_out, r.stderr.chars().take(300).collect::<String>()), json!({"stream": "c16", "source": text}));
            continue;
          }
          let recs: Result<Vec<Value>, String> = if style == "stream" {
            crate::cli::json_lines(&r.stdout)
          } else {
            serde_json::from_str::<Value>(&r.stdout).map_err(|e| e.to_string()).and_then(|v| v.as_array().cloned().ok_or("not an array".to_string()))
          };
          let recs = match recs {
            Ok(x) => x,
            Err(e) => {
              out.oracle_fail("", &format!("{what}: output is not well-formed JSON ({style}): {e}"), json!({"stream": "c16-framing", "source": text, "stdout": r.stdout.chars().take(500).collect::<String>()}));
              continue;
            }
          };
          // tie: the raw documents, grouped as one buffer (one file), through the model's printer automaton
          if let Some(raw) = split_raw_docs(&r.stdout, style) {
            let sid = match style { "pretty" => 0, "stream" => 1, _ => 2 };
            let bufs = if raw.is_empty() { vec![] } else { vec![crate::val::Val::L(raw.iter().map(|d| crate::val::Val::str_bytes(d)).collect())] };
            out.case(42, &crate::vl![crate::val::Val::n(sid), crate::val::Val::L(bufs)], &crate::val::Val::str_bytes(&r.stdout), &format!("framing {what}"));
          }
          // tie: display_context of every match through the library
          {
            use ast_grep_core::matcher::MatcherExt;
            let g = corpus::parse(lang, &text);
            for n in g.root().dfs() {
              if let Some(nm) = pat.match_node(n.clone()) {
                let d = nm.display_context(before, after);
                let (s0, e0) = (n.range().start, n.range().end);
                out.case(41, &crate::vl![crate::val::Val::str_bytes(&text), crate::val::Val::n(s0), crate::val::Val::n(e0), crate::val::Val::n(before), crate::val::Val::n(after)],
                  &crate::vl![crate::val::Val::n(s0 - d.leading.len()), crate::val::Val::n(e0.min(text.len()) + d.trailing.len()), crate::val::Val::n(n.start_pos().line() - d.start_line)],
                  &format!("display_context -B{before} -A{after} of {s0}..{e0} in variant {vname}"));
              }
            }
          }
          out.count(&format!("json:{style}"));
          out.count(&format!("variant:{vname}"));
          out.count(if recs.is_empty() { "records:none" } else { "records:some" });
          for rec in &recs {
            if let Err(m) = check_record(bytes, rec, before, after) {
              out.oracle_fail("", &format!("{what}: {m}"), json!({"stream": "c16-record", "source": text, "pattern": ptext, "record": rec}));
              break;
            }
          }
          if !recs.is_empty() {
            out.nontrivial(&(lname.clone(), ptext.clone(), vname, style, before, after, si));
            if !sampled {
              sampled = true;
              out.sample(json!({"cmd": what, "records": recs.len()}));
            }
          }
          // plain text: path:line:text
          let mut pargs: Vec<&str> = vec!["run", "-p", &ptext, "-l", &lname, "--color", "never", "--heading", "never"];
          for c in &ctx {
            pargs.push(c);
          }
          pargs.push(&file);
          let rp = sg(&dir, &pargs, None, 30);
          out.checked();
          let flines: Vec<&str> = text.lines().collect();
          for l in rp.stdout.lines() {
            let Some(rest) = l.strip_prefix(&file) else { continue };
            let b = rest.as_bytes();
            if b.is_empty() || (b[0] != b':' && b[0] != b'-') {
              continue;
            }
            let digits: String = rest[1..].chars().take_while(|c| c.is_ascii_digit()).collect();
            if digits.is_empty() {
              continue;
            }
            let n: usize = digits.parse().unwrap();
            let tail = &rest[1 + digits.len()..];
            if tail.is_empty() {
              continue;
            }
            let shown = &tail[1..];
            if n == 0 || n > flines.len() || flines[n - 1] != shown {
              out.oracle_fail("", &format!("sg {}: entry {l:?} does not carry the text of line {n} of the file ({:?})", pargs.join(" "), flines.get(n.wrapping_sub(1))),
                json!({"stream": "c16-plain", "source": text, "pattern": ptext}));
              break;
            }
          }
        }
      }
    }
  }
  out.finish("files in 7 variants (as is, CRLF, no trailing newline, multi-byte text in front of code, a 3000-character first line, a first line with hundreds of multi-byte characters, a leading byte order mark) searched with patterns cut from them, random context flags (-A/-B/-C 1..3), \
              the three JSON styles, optional -r: every record's text, byteOffset, line/character column of both ends, lines, charCount, every meta-variable and label and replacementOffsets are recomputed from the file bytes; \
              the output must parse as JSON (array, or one object per line); every path:line:text entry of the plain report must carry that line of the file. non-trivial = at least one record");
}

/// split the CLI's JSON output into the raw document texts (without re-serialising them)
fn split_raw_docs(out: &str, style: &str) -> Option<Vec<String>> {
  let mut docs = vec![];
  let bytes = out.as_bytes();
  let mut pos = 0usize;
  if style != "stream" {
    if bytes.first() != Some(&b'[') {
      return None;
    }
    pos = 1;
  }
  loop {
    while pos < bytes.len() && (bytes[pos] == b',' || bytes[pos] == b'\n' || bytes[pos] == b' ') {
      pos += 1;
    }
    if pos >= bytes.len() || bytes[pos] == b']' {
      break;
    }
    let mut de = serde_json::Deserializer::from_str(&out[pos..]).into_iter::<Value>();
    match de.next() {
      Some(Ok(_)) => {
        let end = pos + de.byte_offset();
        docs.push(out[pos..end].to_string());
        pos = end;
      }
      _ => return None,
    }
  }
  Some(docs)
}
