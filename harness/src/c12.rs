//! C12 — accepted rules are self-consistent: variables, references and rewriters resolve.
//! Three parts:
//!  (a) tie of the acceptance model (coq/theories/Front/Load.v, fid 48): rule documents assembled from
//!      valid parts, with one (sometimes two) references or variables perturbed, are given to
//!      `from_yaml_string`; the outcome (accepted / which check refused it) must be what `load` computes;
//!  (b) an independent oracle on every accepted document (own graph search, own variable scan) and on
//!      every reported cycle (the named key lies on a same-node cycle);
//!  (c) the converse: for accepted rules with a fix (string and object form), the replacement equals the
//!      template with every variable occurrence replaced by its captured / transformed text, computed
//!      here by an independent scanner.
//! Plus fid 49/50: TopologicalSort on random dependency maps / global utility rule sets.
use crate::corpus;
use crate::out::Out;
use crate::rng::Rng;
use crate::rulegen::*;
use crate::val::Val;
use crate::{vl, Opts};
use ast_grep_config::{from_str, from_yaml_string, DeserializeEnv, GlobalRules, RuleConfig};
use ast_grep_core::replacer::Replacer;
use ast_grep_core::Language;
use ast_grep_language::SupportLang;
use serde_json::json;
use std::collections::{BTreeMap, BTreeSet, HashMap};
use std::panic::{catch_unwind, AssertUnwindSafe};

#[derive(Clone, Debug)]
pub struct TransG {
  pub key: String,
  pub source: String,
  pub rewriters: Option<Vec<String>>, // Some => `rewrite`, None => `substring`
  pub start: Option<usize>,
  pub end: Option<usize>,
}

#[derive(Clone, Debug)]
pub struct FixG {
  pub template: String,
  pub object: bool,
  pub expansions: Vec<(bool, RObj, Stop)>, // (is_end, rule, stopBy)
}

#[derive(Clone, Debug, Default)]
pub struct CoreG {
  pub rule: RObj,
  pub utils: Vec<(String, RObj)>,
  pub cons: Vec<(String, RObj)>,
  pub trans: Option<Vec<TransG>>,
  pub fix: Option<FixG>,
}

#[derive(Clone, Debug, Default)]
pub struct DocG {
  pub core: CoreG,
  pub rewriters: Option<Vec<(String, CoreG)>>,
}

fn q(s: &str) -> String {
  serde_json::to_string(s).unwrap()
}

impl CoreG {
  fn yaml(&self, ind: usize) -> String {
    let pad = " ".repeat(ind);
    let mut s = format!("{pad}rule:\n{}", self.rule.yaml(ind + 2));
    if !self.utils.is_empty() {
      s.push_str(&format!("{pad}utils:\n"));
      for (id, r) in &self.utils {
        s.push_str(&format!("{pad}  {id}:\n{}", r.yaml(ind + 4)));
      }
    }
    if !self.cons.is_empty() {
      s.push_str(&format!("{pad}constraints:\n"));
      for (id, r) in &self.cons {
        s.push_str(&format!("{pad}  {id}:\n{}", r.yaml(ind + 4)));
      }
    }
    if let Some(ts) = &self.trans {
      if ts.is_empty() {
        s.push_str(&format!("{pad}transform: {{}}\n"));
      } else {
        s.push_str(&format!("{pad}transform:\n"));
        for t in ts {
          s.push_str(&format!("{pad}  {}:\n", t.key));
          match &t.rewriters {
            Some(rw) => s.push_str(&format!("{pad}    rewrite:\n{pad}      source: {}\n{pad}      rewriters: [{}]\n", q(&t.source), rw.join(", "))),
            None => {
              s.push_str(&format!("{pad}    substring:\n{pad}      source: {}\n", q(&t.source)));
              if let Some(a) = t.start {
                s.push_str(&format!("{pad}      startChar: {a}\n"));
              }
              if let Some(b) = t.end {
                s.push_str(&format!("{pad}      endChar: {b}\n"));
              }
            }
          }
        }
      }
    }
    if let Some(f) = &self.fix {
      if !f.object && f.expansions.is_empty() {
        s.push_str(&format!("{pad}fix: {}\n", q(&f.template)));
      } else {
        s.push_str(&format!("{pad}fix:\n{pad}  template: {}\n", q(&f.template)));
        for (is_end, r, stop) in &f.expansions {
          s.push_str(&format!("{pad}  {}:\n{}", if *is_end { "expandEnd" } else { "expandStart" }, r.yaml(ind + 4)));
          match stop {
            Stop::Neighbor => {}
            Stop::End => s.push_str(&format!("{pad}    stopBy: end\n")),
            Stop::Rule(sr) => s.push_str(&format!("{pad}    stopBy:\n{}", sr.yaml(ind + 6))),
          }
        }
      }
    }
    s
  }
  fn wire(&self, d: &DocInfo) -> Result<Val, WireErr> {
    let named = |l: &Vec<(String, RObj)>| -> Result<Val, WireErr> { Ok(Val::L(l.iter().map(|(id, r)| Ok(vl![Val::str_bytes(id), r.wire(d)?])).collect::<Result<Vec<_>, WireErr>>()?)) };
    let trans = match &self.trans {
      None => Val::opt(None),
      Some(ts) => Val::opt(Some(Val::L(ts.iter().map(|t| vl![Val::str_bytes(&t.key), Val::str_bytes(&t.source), Val::L(t.rewriters.clone().unwrap_or_default().iter().map(|x| Val::str_bytes(x)).collect())]).collect()))),
    };
    let fix = match &self.fix {
      None => Val::opt(None),
      Some(f) => {
        let mut ex = vec![];
        // Fixer::do_parse: expandStart is parsed (and verified) before expandEnd
        for want_end in [false, true] {
          for (is_end, r, stop) in &f.expansions {
            if *is_end == want_end {
              let st = match stop {
                Stop::Neighbor => vl![Val::Z(0)],
                Stop::End => vl![Val::Z(1)],
                Stop::Rule(sr) => vl![Val::Z(2), sr.wire(d)?],
              };
              ex.push(vl![r.wire(d)?, st]);
            }
          }
        }
        Val::opt(Some(vl![Val::str_bytes(&f.template), Val::L(ex)]))
      }
    };
    Ok(vl![self.rule.wire(d)?, named(&self.utils)?, named(&self.cons)?, trans, fix])
  }
  fn objs_mut(&mut self) -> Vec<&mut RObj> {
    let mut v: Vec<&mut RObj> = vec![&mut self.rule];
    v.extend(self.utils.iter_mut().map(|x| &mut x.1));
    v.extend(self.cons.iter_mut().map(|x| &mut x.1));
    if let Some(f) = &mut self.fix {
      for (_, r, s) in f.expansions.iter_mut() {
        v.push(r);
        if let Stop::Rule(sr) = s {
          v.push(sr);
        }
      }
    }
    v
  }
}

impl DocG {
  fn yaml(&self) -> String {
    let mut s = format!("id: r\nlanguage: TypeScript\n{}", self.core.yaml(0));
    if let Some(rws) = &self.rewriters {
      if rws.is_empty() {
        s.push_str("rewriters: []\n");
      } else {
        s.push_str("rewriters:\n");
        for (id, c) in rws {
          s.push_str(&format!("- id: {id}\n{}", c.yaml(2)));
        }
      }
    }
    s
  }
  fn wire(&self, d: &DocInfo, globals: &[&str]) -> Result<Val, WireErr> {
    let rws = match &self.rewriters {
      None => Val::opt(None),
      Some(l) => Val::opt(Some(Val::L(l.iter().map(|(id, c)| Ok(vl![Val::str_bytes(id), c.wire(d)?])).collect::<Result<Vec<_>, WireErr>>()?))),
    };
    // a global utility enters the model with its id and its potential kinds (here: `kind: number`)
    let number = d.lang.get_ts_language().id_for_node_kind("number", true) as usize;
    Ok(vl![self.core.wire(d)?, rws, Val::L(globals.iter().map(|g| vl![Val::str_bytes(g), Val::opt(Some(vl![Val::n(number)]))]).collect())])
  }
}

// ---------------------------------------------------------------- generation
const PATS: &[&str] = &["foo($A)", "foo($A, $B)", "bar($$$ARGS)", "let $V = $W", "$X", "$F($$$ARGS)", "1", "console.log($M)"];
const KINDS: &[&str] = &["number", "identifier", "call_expression", "arguments", "string", "lexical_declaration"];

fn atom(rng: &mut Rng, allow_vars: bool) -> RObj {
  match rng.below(5) {
    0 | 1 if allow_vars => RObj::one(RKey::Pattern { text: rng.pick(PATS).to_string(), selector: None, strictness: None }),
    2 => RObj::one(RKey::Regex("^[a-z]".into())),
    _ => RObj::one(RKey::Kind(rng.pick(KINDS).to_string())),
  }
}

/// wrap `inner` below a randomly chosen operator; returns (object, whether inner is required on the same node)
fn wrap(rng: &mut Rng, inner: RObj, op: usize) -> (RObj, bool) {
  let rel = |r: RObj, stop: Stop| Box::new(Rel { rule: r, stop, field: None });
  match op % 10 {
    0 => (inner, true),
    1 => (RObj::one(RKey::All(vec![atom(rng, false), inner])), true),
    2 => (RObj::one(RKey::Any(vec![inner, atom(rng, false)])), true),
    3 => (RObj::one(RKey::Not(Box::new(inner))), true),
    4 => (RObj::one(RKey::Nth { pos: NthPos::Num(1), reverse: false, of: Some(Box::new(inner)), simple: false }), true),
    5 => (RObj::one(RKey::Inside(rel(inner, Stop::End))), false),
    6 => (RObj::one(RKey::Has(rel(inner, Stop::Neighbor))), false),
    7 => (RObj::one(RKey::Follows(rel(atom(rng, false), Stop::Rule(inner)))), false),
    8 => (RObj::one(RKey::Precedes(rel(inner, Stop::End))), false),
    // several keys in one object
    _ => {
      let mut o = atom(rng, false);
      o.keys.extend(inner.keys);
      (o, true)
    }
  }
}

fn body_with_refs(rng: &mut Rng, refs: &[String], allow_vars: bool) -> RObj {
  let mut parts = vec![atom(rng, allow_vars)];
  for r in refs {
    let op = rng.below(10);
    let (w, _) = wrap(rng, RObj::one(RKey::Matches(r.clone())), op);
    parts.push(w);
  }
  if parts.len() == 1 {
    parts.pop().unwrap()
  } else if rng.chance(2, 3) {
    RObj::one(RKey::All(parts))
  } else {
    RObj::one(RKey::Any(parts))
  }
}

fn obj_vars(o: &RObj) -> Vec<String> {
  let mut pats = vec![];
  o.patterns(&mut pats);
  pats.iter().flat_map(|p| vars_of(p)).collect()
}

fn gen_valid(rng: &mut Rng, with_global: bool) -> DocG {
  let mut core = CoreG::default();
  let nutils = rng.below(4);
  for i in 0..nutils {
    let mut refs: Vec<String> = vec![];
    for j in 0..i {
      if rng.chance(1, 2) {
        refs.push(format!("u{j}"));
      }
    }
    if with_global && rng.chance(1, 4) {
      refs.push("g0".into());
    }
    core.utils.push((format!("u{i}"), body_with_refs(rng, &refs, true)));
  }
  // the rule: a pattern atom (kinds) and references
  let mut refs: Vec<String> = (0..nutils).filter(|_| rng.chance(1, 2)).map(|j| format!("u{j}")).collect();
  if with_global && rng.chance(1, 3) {
    refs.push("g0".into());
  }
  let pat = RObj::one(RKey::Pattern { text: rng.pick(&PATS[..4]).to_string(), selector: None, strictness: None });
  let mut parts = vec![pat];
  for r in &refs {
    let op = rng.below(10);
    parts.push(wrap(rng, RObj::one(RKey::Matches(r.clone())), op).0);
  }
  core.rule = if parts.len() == 1 { parts.pop().unwrap() } else { RObj::one(RKey::All(parts)) };
  let mut vars: Vec<String> = obj_vars(&core.rule);
  for (_, u) in &core.utils {
    vars.extend(obj_vars(u));
  }
  vars.sort();
  vars.dedup();
  // constraints
  for _ in 0..rng.below(3) {
    if vars.is_empty() {
      break;
    }
    let key = rng.pick(&vars).clone();
    if core.cons.iter().any(|c| c.0 == key) {
      continue;
    }
    let body = match rng.below(4) {
      0 => RObj::one(RKey::Regex("^[a-z0-9]".into())),
      1 if nutils > 0 => RObj::one(RKey::Matches(format!("u{}", rng.below(nutils)))),
      2 => RObj::one(RKey::Pattern { text: "$CV".into(), selector: None, strictness: None }),
      _ => RObj::one(RKey::Kind(rng.pick(KINDS).to_string())),
    };
    core.cons.push((key, body));
  }
  for (_, c) in &core.cons {
    vars.extend(obj_vars(c));
  }
  vars.sort();
  vars.dedup();
  // rewriters
  let mut rws: Vec<(String, CoreG)> = vec![];
  if rng.chance(1, 3) {
    for i in 0..(1 + rng.below(2)) {
      let mut c = CoreG::default();
      c.rule = RObj::one(RKey::Pattern { text: ["$RA", "foo($RA)", "$RA + $RB"][rng.below(3)].to_string(), selector: None, strictness: None });
      let own = obj_vars(&c.rule);
      let mut pool = own.clone();
      pool.extend(vars.iter().cloned());
      let v1 = rng.pick(&pool).clone();
      c.fix = Some(FixG { template: format!("<${v1}>"), object: rng.chance(1, 3), expansions: vec![] });
      rws.push((format!("rw{i}"), c));
    }
  }
  // transformations
  if rng.chance(1, 2) && !vars.is_empty() {
    let mut ts: Vec<TransG> = vec![];
    let n = 1 + rng.below(3);
    for i in 0..n {
      let mut pool: Vec<String> = vars.clone();
      pool.extend(ts.iter().map(|t| t.key.clone()));
      let src = rng.pick(&pool).clone();
      // `$$X` (a capture that may be an unnamed node) is the variable X too
      let sig = if src == "ARGS" { "$$$" } else if rng.chance(1, 6) { "$$" } else { "$" };
      let rewriters = if !rws.is_empty() && rng.chance(1, 2) { Some(vec![rws[rng.below(rws.len())].0.clone()]) } else { None };
      ts.push(TransG { key: format!("T{i}"), source: format!("{sig}{src}"), rewriters, start: Some(rng.below(2)), end: None });
    }
    if rng.chance(1, 2) {
      ts.reverse(); // written order is irrelevant
    }
    core.trans = Some(ts);
  }
  // fix
  if rng.chance(2, 3) {
    let mut pool: Vec<String> = vars.clone();
    if let Some(ts) = &core.trans {
      pool.extend(ts.iter().map(|t| t.key.clone()));
    }
    let mut tpl = String::from("out(");
    for _ in 0..rng.below(4) {
      if pool.is_empty() {
        break;
      }
      let v = rng.pick(&pool).clone();
      let sig = if v == "ARGS" { "$$$" } else { "$" };
      tpl.push_str(&format!("{sig}{v}{}", [", ", "", "x", "-", " "][rng.below(5)]));
    }
    tpl.push(')');
    let mut expansions = vec![];
    if rng.chance(1, 4) {
      let r = if nutils > 0 && rng.chance(1, 2) { RObj::one(RKey::Matches(format!("u{}", rng.below(nutils)))) } else { RObj::one(RKey::Regex(",".into())) };
      let stop = match rng.below(3) {
        0 => Stop::Neighbor,
        1 => Stop::End,
        _ => Stop::Rule(if nutils > 0 { RObj::one(RKey::Matches(format!("u{}", rng.below(nutils)))) } else { RObj::one(RKey::Kind("number".into())) }),
      };
      expansions.push((rng.chance(1, 2), r, stop));
    }
    core.fix = Some(FixG { template: tpl, object: rng.chance(1, 3), expansions });
  }
  DocG { core, rewriters: if rws.is_empty() { if rng.chance(1, 8) { Some(vec![]) } else { None } } else { Some(rws) } }
}

/// replace the target of the k-th `matches` found in the object (pre-order)
fn rename_ref(o: &mut RObj, k: &mut isize, to: &str) -> bool {
  for key in o.keys.iter_mut() {
    let hit = match key {
      RKey::Matches(id) => {
        if *k == 0 {
          *id = to.to_string();
          return true;
        }
        *k -= 1;
        false
      }
      RKey::All(rs) | RKey::Any(rs) => rs.iter_mut().any(|r| rename_ref(r, k, to)),
      RKey::Not(r) => rename_ref(r, k, to),
      RKey::Nth { of: Some(r), .. } => rename_ref(r, k, to),
      RKey::Inside(r) | RKey::Has(r) | RKey::Precedes(r) | RKey::Follows(r) => {
        rename_ref(&mut r.rule, k, to) || if let Stop::Rule(sr) = &mut r.stop { rename_ref(sr, k, to) } else { false }
      }
      _ => false,
    };
    if hit {
      return true;
    }
  }
  false
}

fn perturb(rng: &mut Rng, d: &mut DocG, out: &mut Out) {
  let which = rng.below(17);
  let tag;
  match which {
    0 => {
      tag = "rename-reference";
      let mut objs = d.core.objs_mut();
      let n = objs.len();
      let start = rng.below(n);
      let to = ["nope", "u9", "g1", "r"][rng.below(4)];
      for i in 0..n {
        let mut k = rng.below(2) as isize;
        if rename_ref(objs[(start + i) % n], &mut k, to) {
          break;
        }
      }
    }
    1 | 2 => {
      tag = "back-reference";
      // util j gets a reference to util i >= j below a random operator (same-node or relational)
      let n = d.core.utils.len();
      if n > 0 {
        let j = rng.below(n);
        let i = j + rng.below(n - j);
        let op = rng.below(10);
        let (w, _) = wrap(rng, RObj::one(RKey::Matches(format!("u{i}"))), op);
        let old = std::mem::take(&mut d.core.utils[j].1);
        d.core.utils[j].1 = match rng.below(4) {
          0 => RObj::one(RKey::All(vec![old, w])),
          1 => RObj::one(RKey::Any(vec![old, w])),
          // the back edge in a composite key NEXT TO a `matches` key of the same object
          _ => {
            let side = if j > 0 { format!("u{}", rng.below(j)) } else { "g0".to_string() };
            let comp = match rng.below(3) {
              0 => RKey::Not(Box::new(w)),
              1 => RKey::All(vec![old, w]),
              _ => RKey::Any(vec![w, old]),
            };
            RObj { keys: vec![RKey::Matches(side), comp] }
          }
        };
      }
    }
    3 => {
      tag = "fix-undefined-var";
      if let Some(f) = &mut d.core.fix {
        f.template.push_str([" $NOPE", " $$$NOPE", " $A1", " $T9"][rng.below(4)]);
      }
    }
    4 => {
      tag = "transform-undefined-source";
      if let Some(ts) = &mut d.core.trans {
        let i = rng.below(ts.len().max(1));
        if let Some(t) = ts.get_mut(i) {
          t.source = ["$NOPE", "$$$NOPE", "$T9"][rng.below(3)].to_string();
        }
      }
    }
    5 => {
      tag = "constraint-undefined-key";
      d.core.cons.push((["NOPE", "T0", "CV"][rng.below(3)].to_string(), RObj::one(RKey::Kind("number".into()))));
    }
    6 => {
      tag = "transform-key-already-defined";
      let vars = obj_vars(&d.core.rule);
      if let (Some(ts), Some(v)) = (&mut d.core.trans, vars.first()) {
        if let Some(t) = ts.last_mut() {
          t.key = v.clone();
        }
      }
    }
    7 | 8 => {
      tag = "transform-cycle";
      if let Some(ts) = &mut d.core.trans {
        let n = ts.len();
        let i = rng.below(n);
        let j = rng.below(n);
        let kj = ts[j].key.clone();
        ts[i].source = format!("${kj}");
        if i != j {
          let ki = ts[i].key.clone();
          ts[j].source = format!("${ki}");
        }
      }
    }
    9 => {
      tag = "transform-malformed-source";
      if let Some(ts) = &mut d.core.trans {
        let i = rng.below(ts.len());
        ts[i].source = ["A", "$a", "", "$$A", "$A B", "$$$"][rng.below(6)].to_string();
      }
    }
    10 => {
      tag = "rewriter-undefined";
      if let Some(ts) = &mut d.core.trans {
        let i = rng.below(ts.len());
        ts[i].rewriters = Some(vec!["rw7".into()]);
      }
    }
    11 => {
      tag = "rewriter-without-fix";
      if let Some(rws) = &mut d.rewriters {
        if let Some(r) = rws.last_mut() {
          r.1.fix = None;
        }
      }
    }
    12 => {
      tag = "rewriter-fix-undefined-var";
      if let Some(rws) = &mut d.rewriters {
        if let Some(r) = rws.first_mut() {
          if let Some(f) = &mut r.1.fix {
            f.template.push_str(" $NOPE");
          }
        }
      }
    }
    13 => {
      tag = "rule-without-kinds";
      d.core.rule = match rng.below(4) {
        0 => RObj::one(RKey::Regex("^a".into())),
        1 => RObj::one(RKey::Not(Box::new(RObj::one(RKey::Kind("number".into()))))),
        2 => RObj::one(RKey::Has(Box::new(Rel { rule: RObj::one(RKey::Kind("number".into())), stop: Stop::End, field: None }))),
        _ => RObj::one(RKey::Any(vec![RObj::one(RKey::Kind("number".into())), RObj::one(RKey::Regex("^a".into()))])),
      };
    }
    14 => {
      tag = "rewriter-uses-rewriter";
      if let Some(rws) = &mut d.rewriters {
        let target = if rng.chance(1, 2) && !rws.is_empty() { rws[0].0.clone() } else { "rw7".to_string() };
        if let Some(r) = rws.last_mut() {
          let v = obj_vars(&r.1.rule).first().cloned().unwrap_or("RA".into());
          r.1.trans = Some(vec![TransG { key: "RT".into(), source: format!("${v}"), rewriters: Some(vec![target]), start: None, end: None }]);
        }
      }
    }
    15 => {
      tag = "local-utility-shadows-the-global-one";
      // the rule relies on `g0` alone for its kinds; a LOCAL g0 (with or without known kinds) takes precedence
      let body = if rng.chance(2, 3) { RObj::one(RKey::Regex("^1".into())) } else { RObj::one(RKey::Kind("string".into())) };
      d.core.utils.push(("g0".to_string(), body));
      d.core.rule = if rng.chance(1, 2) { RObj::one(RKey::Matches("g0".into())) } else { RObj::one(RKey::All(vec![RObj::one(RKey::Matches("g0".into())), RObj::one(RKey::Regex(".".into()))])) };
      d.core.cons.clear();
      d.core.trans = None;
      d.core.fix = None;
      d.rewriters = None;
    }
    _ => {
      tag = "expansion-reference";
      if let Some(f) = &mut d.core.fix {
        f.expansions.push((rng.chance(1, 2), RObj::one(RKey::Matches(["nope", "u0", "u1"][rng.below(3)].to_string())), Stop::Rule(RObj::one(RKey::Matches(["nope", "u0"][rng.below(2)].to_string())))));
      }
    }
  }
  out.count(&format!("perturbation:{tag}"));
}

// ---------------------------------------------------------------- implementation side
fn err_code(e: &dyn std::error::Error) -> Vec<i128> {
  let mut msgs = vec![];
  let mut cur: Option<&dyn std::error::Error> = Some(e);
  while let Some(c) = cur {
    msgs.push(c.to_string());
    cur = c.source();
  }
  let all = msgs.join(" | ");
  let mut code = vec![];
  if all.contains("Rewriter rule `") && all.contains("is not configured correctly") {
    code.push(10);
  }
  let k = if all.contains("has a cyclic dependency in its `matches` sub-rule") {
    1
  } else if all.contains("is not defined.") {
    2
  } else if all.contains("used in `constraints`") {
    3
  } else if all.contains("has already defined") {
    4
  } else if all.contains("used in `transform`") {
    5
  } else if all.contains("has a cyclic dependency.") {
    6
  } else if all.contains("should be $-prefixed") {
    7
  } else if all.contains("used in `fix`") {
    8
  } else if all.contains("should have `fix`") {
    9
  } else if all.contains("Undefined rewriter") {
    11
  } else if all.contains("Rule must specify a set of AST kinds") {
    12
  } else {
    50
  };
  code.push(k);
  code
}

fn named_key(e: &dyn std::error::Error) -> Option<String> {
  let mut cur: Option<&dyn std::error::Error> = Some(e);
  let mut last = None;
  while let Some(c) = cur {
    let m = c.to_string();
    if m.contains("cyclic dependency") {
      last = m.split('`').nth(1).map(|s| s.to_string());
    }
    cur = c.source();
  }
  last
}

fn globals() -> GlobalRules<SupportLang> {
  let g = from_str("id: g0\nlanguage: TypeScript\nrule:\n  kind: number\n").unwrap();
  DeserializeEnv::parse_global_utils(vec![g]).unwrap()
}

// ---------------------------------------------------------------- independent oracle
fn same_node_refs(o: &RObj, out: &mut Vec<String>) {
  for k in &o.keys {
    match k {
      RKey::Matches(id) => out.push(id.clone()),
      RKey::All(rs) | RKey::Any(rs) => rs.iter().for_each(|r| same_node_refs(r, out)),
      RKey::Not(r) => same_node_refs(r, out),
      RKey::Nth { of: Some(r), .. } => same_node_refs(r, out),
      _ => {}
    }
  }
}
fn all_refs(o: &RObj, out: &mut Vec<String>) {
  for k in &o.keys {
    match k {
      RKey::Matches(id) => out.push(id.clone()),
      RKey::All(rs) | RKey::Any(rs) => rs.iter().for_each(|r| all_refs(r, out)),
      RKey::Not(r) => all_refs(r, out),
      RKey::Nth { of: Some(r), .. } => all_refs(r, out),
      RKey::Inside(r) | RKey::Has(r) | RKey::Precedes(r) | RKey::Follows(r) => {
        all_refs(&r.rule, out);
        if let Stop::Rule(sr) = &r.stop {
          all_refs(sr, out);
        }
      }
      _ => {}
    }
  }
}
/// is `start` on a cycle of the graph?
fn on_cycle(g: &BTreeMap<String, Vec<String>>, start: &str) -> bool {
  let mut stack: Vec<&str> = g.get(start).map(|v| v.iter().map(|s| s.as_str()).collect()).unwrap_or_default();
  let mut seen = BTreeSet::new();
  while let Some(x) = stack.pop() {
    if x == start {
      return true;
    }
    if seen.insert(x.to_string()) {
      if let Some(v) = g.get(x) {
        stack.extend(v.iter().map(|s| s.as_str()));
      }
    }
  }
  false
}
fn util_graph(c: &CoreG) -> BTreeMap<String, Vec<String>> {
  c.utils.iter().map(|(id, r)| { let mut v = vec![]; same_node_refs(r, &mut v); (id.clone(), v) }).collect()
}
fn trans_graph(c: &CoreG) -> BTreeMap<String, Vec<String>> {
  c.trans.iter().flatten().map(|t| (t.key.clone(), vec![t.source.trim_start_matches('$').to_string()])).collect()
}
/// `$NAME` / `$$NAME` / `$$$NAME` occurrences of a template (independent scanner: up to three sigils, then
/// the longest run of upper-case letters, digits and `_`)
fn template_vars(t: &str) -> Vec<(usize, usize, bool, String)> {
  let b = t.as_bytes();
  let mut v = vec![];
  let mut i = 0;
  while i < b.len() {
    if b[i] == b'$' {
      let mut d = 1;
      while d < 3 && i + d < b.len() && b[i + d] == b'$' {
        d += 1;
      }
      let st = i + d;
      let mut j = st;
      while j < b.len() && (b[j].is_ascii_uppercase() || b[j] == b'_' || b[j].is_ascii_digit()) {
        j += 1;
      }
      if j > st {
        v.push((i, j, d == 3, t[st..j].to_string()));
        i = j;
        continue;
      }
    }
    i += 1;
  }
  v
}

/// does the rule object determine a set of node kinds? (all: some part does; any: every alternative does; a
/// reference: the LOCAL utility of that name if there is one, else the global one)
fn kinds_known(o: &RObj, utils: &[(String, RObj)], globals: &[&str], depth: usize) -> bool {
  if depth > 20 {
    return false;
  }
  let one = |k: &RKey| -> bool {
    match k {
      RKey::Pattern { .. } | RKey::Kind(_) => true,
      RKey::Nth { of: Some(r), .. } => kinds_known(r, utils, globals, depth + 1),
      RKey::All(rs) => rs.iter().any(|r| kinds_known(r, utils, globals, depth + 1)),
      RKey::Any(rs) => rs.iter().all(|r| kinds_known(r, utils, globals, depth + 1)),
      RKey::Matches(id) => match utils.iter().find(|u| &u.0 == id) {
        Some(u) => kinds_known(&u.1, utils, globals, depth + 1),
        None => globals.contains(&id.as_str()),
      },
      _ => false,
    }
  };
  // several keys in one object are a conjunction
  o.keys.iter().any(one)
}

/// what the property demands of an accepted document, decided without the loader
fn accepted_is_consistent(d: &DocG, globals: &[&str]) -> Result<(), String> {
  let check_core = |c: &CoreG, upper: &[String], what: &str| -> Result<Vec<String>, String> {
    let names: BTreeSet<String> = c.utils.iter().map(|u| u.0.clone()).chain(globals.iter().map(|g| g.to_string())).collect();
    let mut refs = vec![];
    all_refs(&c.rule, &mut refs);
    c.utils.iter().for_each(|u| all_refs(&u.1, &mut refs));
    c.cons.iter().for_each(|u| all_refs(&u.1, &mut refs));
    if let Some(f) = &c.fix {
      for (_, r, s) in &f.expansions {
        all_refs(r, &mut refs);
        if let Stop::Rule(sr) = s {
          all_refs(sr, &mut refs);
        }
      }
    }
    if let Some(r) = refs.iter().find(|r| !names.contains(*r)) {
      return Err(format!("{what}: `matches: {r}` does not resolve"));
    }
    let ug = util_graph(c);
    if let Some(k) = ug.keys().find(|k| on_cycle(&ug, k)) {
      return Err(format!("{what}: utility {k} requires itself on the same node"));
    }
    let tg = trans_graph(c);
    if let Some(k) = tg.keys().find(|k| on_cycle(&tg, k)) {
      return Err(format!("{what}: transformation {k} depends on itself"));
    }
    let mut vars: BTreeSet<String> = obj_vars(&c.rule).into_iter().collect();
    c.utils.iter().for_each(|u| vars.extend(obj_vars(&u.1)));
    c.cons.iter().for_each(|u| vars.extend(obj_vars(&u.1)));
    if let Some((k, _)) = c.cons.iter().find(|(k, _)| !vars.contains(k)) {
      return Err(format!("{what}: constraint key {k} is not a variable of the rule"));
    }
    let tkeys: BTreeSet<String> = c.trans.iter().flatten().map(|t| t.key.clone()).collect();
    for t in c.trans.iter().flatten() {
      let s = t.source.trim_start_matches('$');
      if !vars.contains(s) && !tkeys.contains(s) {
        return Err(format!("{what}: transformation {} reads undefined {}", t.key, t.source));
      }
    }
    if let Some(f) = &c.fix {
      for (_, _, _, name) in template_vars(&f.template) {
        // a name that continues with more upper-case letters than a transformation key is the longer name
        if !vars.contains(&name) && !tkeys.contains(&name) && !upper.contains(&name) && !tkeys.iter().any(|k| name.starts_with(k.as_str())) {
          return Err(format!("{what}: fix uses undefined ${name}"));
        }
      }
    }
    let mut all: Vec<String> = vars.into_iter().collect();
    all.extend(tkeys);
    Ok(all)
  };
  let upper = check_core(&d.core, &[], "rule")?;
  if !kinds_known(&d.core.rule, &d.core.utils, globals, 0) {
    return Err("the rule can match nodes of any kind (no known kind set)".into());
  }
  let ids: BTreeSet<String> = d.rewriters.iter().flatten().map(|r| r.0.clone()).collect();
  for (id, c) in d.rewriters.iter().flatten() {
    check_core(c, &upper, &format!("rewriter {id}"))?;
    if c.fix.is_none() {
      return Err(format!("rewriter {id} has no fix"));
    }
  }
  let used = d.core.trans.iter().flatten().chain(d.rewriters.iter().flatten().flat_map(|r| r.1.trans.iter().flatten())).flat_map(|t| t.rewriters.iter().flatten());
  for r in used {
    if !ids.contains(r) {
      return Err(format!("rewriter {r} is not defined"));
    }
  }
  Ok(())
}

// ---------------------------------------------------------------- part (c): the converse
fn converse(rng: &mut Rng, out: &mut Out, n: usize) {
  let srcs = ["foo(abc, 12);\n", "foo(x1, yy) + foo(q, r);\n", "bar(1, two, 'three');\nfoo(a, b);\n", "let v = wxyz;\nfoo(héllo, wörld);\n"];
  let mut sampled = false;
  for it in 0..n {
    // rule: foo($A, $B) | bar($$$ARGS) | let $V = $W
    let (pat, singles, multi): (&str, Vec<&str>, Option<&str>) = match rng.below(3) {
      0 => ("foo($A, $B)", vec!["A", "B"], None),
      1 => ("bar($$$ARGS)", vec![], Some("ARGS")),
      _ => ("let $V = $W", vec!["V", "W"], None),
    };
    let mut trans: Vec<TransG> = vec![];
    if !singles.is_empty() {
      for i in 0..rng.below(3) {
        let mut pool: Vec<String> = singles.iter().map(|s| s.to_string()).collect();
        pool.extend(trans.iter().map(|t| t.key.clone()));
        let src = rng.pick(&pool).clone();
        // keys that are prefixes / extensions of variable names stress the template scanner
        let key = [format!("NEW{i}"), format!("{}X", singles[0]), format!("T{i}"), format!("{}_{i}", singles[0])][rng.below(4)].clone();
        if trans.iter().any(|t| t.key == key) {
          continue;
        }
        trans.push(TransG { key, source: format!("${src}"), rewriters: None, start: Some(rng.below(3)), end: if rng.chance(1, 2) { Some(2 + rng.below(3)) } else { None } });
      }
    }
    // constraints that capture NEW variables (each on its own variable), used by the fix
    let mut cons: Vec<(String, RObj)> = vec![];
    let mut cons_vars: Vec<(String, String)> = vec![]; // (new variable, the variable it equals)
    if singles.len() == 2 && rng.chance(1, 2) {
      for (i, s) in singles.iter().enumerate() {
        if i == 0 || rng.chance(2, 3) {
          let nv = format!("C{s}");
          cons.push((s.to_string(), RObj::one(RKey::Pattern { text: format!("${nv}"), selector: None, strictness: None })));
          cons_vars.push((nv, s.to_string()));
        }
      }
    }
    let mut pool: Vec<(String, bool)> = singles.iter().map(|s| (s.to_string(), false)).collect();
    pool.extend(cons_vars.iter().map(|c| (c.0.clone(), false)));
    if let Some(m) = multi {
      pool.push((m.to_string(), true));
    }
    pool.extend(trans.iter().map(|t| (t.key.clone(), false)));
    let mut tpl = String::new();
    for _ in 0..(1 + rng.below(5)) {
      tpl.push_str(["out(", " ", "", "x-", "é", "$", "$$", "1", "."][rng.below(9)]);
      let (v, m) = rng.pick(&pool).clone();
      tpl.push_str(&format!("{}{v}", if m { "$$$" } else { "$" }));
      tpl.push_str([")", "", " ", "x", "_", "9", ";", "é"][rng.below(8)]);
    }
    let object = it % 2 == 1;
    let d = DocG { core: CoreG { rule: RObj::one(RKey::Pattern { text: pat.into(), selector: None, strictness: None }), utils: vec![], cons: cons.clone(), trans: if trans.is_empty() { None } else { Some(trans.clone()) }, fix: Some(FixG { template: tpl.clone(), object, expansions: vec![] }) }, rewriters: None };
    if cons.len() > 1 {
      out.count("converse:two-capturing-constraints");
    }
    let yaml = d.yaml();
    let loaded = catch_unwind(AssertUnwindSafe(|| from_yaml_string::<SupportLang>(&yaml, &Default::default())));
    out.checked();
    let configs: Vec<RuleConfig<SupportLang>> = match loaded {
      Ok(Ok(c)) => c,
      Ok(Err(_)) => {
        out.count("converse:rejected");
        continue;
      }
      Err(_) => {
        out.oracle_fail("", &format!("loading panicked: {}", q(&yaml)), json!({"stream": "c12-converse", "yaml": yaml}));
        continue;
      }
    };
    out.count(if object { "converse:accepted-object-fix" } else { "converse:accepted-string-fix" });
    let cfg = &configs[0];
    let Some(fixer) = cfg.matcher.fixer.as_ref() else { continue };
    let src = rng.pick(&srcs);
    let sg = corpus::parse(SupportLang::TypeScript, src);
    for nm in sg.root().find_all(&cfg.matcher) {
      let got = String::from_utf8_lossy(&fixer.generate_replacement(&nm)).to_string();
      // captured texts
      let env = nm.get_env();
      let mut val: HashMap<String, String> = HashMap::new();
      for s in &singles {
        if let Some(n) = env.get_match(s) {
          val.insert(s.to_string(), n.text().to_string());
        }
      }
      // a constraint `X: {pattern: $CX}` binds CX to the node X is bound to
      for (nv, s) in &cons_vars {
        if let Some(x) = val.get(s).cloned() {
          val.insert(nv.clone(), x);
        }
      }
      if let Some(m) = multi {
        let ns = env.get_multiple_matches(m);
        if let (Some(f), Some(l)) = (ns.first(), ns.last()) {
          val.insert(m.to_string(), src[f.range().start..l.range().end].to_string());
        } else {
          val.insert(m.to_string(), String::new());
        }
      }
      // transformed values, in dependency order, computed here: substring by characters
      let mut pending: Vec<&TransG> = trans.iter().collect();
      let mut guard = 0;
      while !pending.is_empty() && guard < 10 {
        guard += 1;
        pending.retain(|t| {
          let s = t.source.trim_start_matches('$');
          if let Some(x) = val.get(s).cloned() {
            let cs: Vec<char> = x.chars().collect();
            let a = t.start.unwrap_or(0).min(cs.len());
            let b = t.end.unwrap_or(cs.len()).min(cs.len());
            val.insert(t.key.clone(), if a < b { cs[a..b].iter().collect() } else { String::new() });
            false
          } else {
            true
          }
        });
      }
      // tie of the transformation pass (fid 52): captures and transformations in, transformed variables out
      if !trans.is_empty() {
        let cap = |m: &HashMap<String, String>, names: &[&str]| Val::L(names.iter().filter_map(|n| m.get(*n).map(|t| vl![Val::str_bytes(n), Val::chars(t)])).collect());
        let multi_names: Vec<&str> = multi.iter().copied().collect();
        let optz = |o: Option<usize>| Val::opt(o.map(Val::n));
        let input = vl![cap(&val, &singles), cap(&val, &multi_names),
          Val::L(trans.iter().map(|t| vl![Val::str_bytes(&t.key), Val::str_bytes(&t.source), optz(t.start), optz(t.end)]).collect())];
        let mut got_t: Vec<(String, String)> = trans.iter().map(|t| (t.key.clone(), env.get_transformed(&t.key).map(|b| String::from_utf8_lossy(b).to_string()).unwrap_or_else(|| "<absent>".into()))).collect();
        got_t.sort();
        out.case(52, &input, &vl![Val::Z(0), Val::L(got_t.iter().map(|(k, v)| vl![Val::str_bytes(k), Val::chars(v)]).collect())],
          &format!("transformed variables of {} on `{}`", q(&yaml), nm.text()));
      }
      // expected text: longest variable name at each `$`
      let mut want = String::new();
      let mut pos = 0;
      for (s, e, _m, name) in template_vars(&tpl) {
        want.push_str(&tpl[pos..s]);
        want.push_str(val.get(&name).map(|x| x.as_str()).unwrap_or(""));
        pos = e;
      }
      want.push_str(&tpl[pos..]);
      out.checked();
      out.nontrivial(&(tpl.clone(), got.clone()));
      if !sampled {
        sampled = true;
        out.sample(json!({"yaml": yaml, "source": src, "replacement": got}));
      }
      if got != want {
        out.oracle_fail("", &format!("accepted rule, fix {} ({} form) on `{}`: replacement is {} but substituting every variable by its captured / transformed text gives {}",
          q(&tpl), if object { "object" } else { "string" }, nm.text(), q(&got), q(&want)), json!({"stream": "c12-converse", "yaml": yaml, "source": src}));
      }
    }
  }
}

// ---------------------------------------------------------------- fid 49 / 50
fn topo_cases(rng: &mut Rng, out: &mut Out, n: usize) {
  // the sort itself is private: it is reached through the `transform` section, whose dependency map is
  // key -> [source variable]; plus general maps through utils (key -> same-node references)
  for _ in 0..n {
    let k = 1 + rng.below(5);
    let names: Vec<String> = (0..k).map(|i| format!("u{i}")).collect();
    let mut utils: Vec<(String, RObj)> = vec![];
    let mut wire_map = vec![];
    for i in 0..k {
      let mut deps = vec![];
      for _ in 0..rng.below(3) {
        let t = if rng.chance(1, 6) { "zz".to_string() } else { rng.pick(&names).clone() };
        deps.push(t);
      }
      // keep it acyclic most of the time
      if rng.chance(2, 3) {
        deps.retain(|d| d.as_str() > names[i].as_str());
      }
      let mut parts = vec![RObj::one(RKey::Kind("number".into()))];
      parts.extend(deps.iter().map(|d| RObj::one(RKey::Matches(d.clone()))));
      utils.push((names[i].clone(), RObj::one(RKey::All(parts))));
      wire_map.push(vl![Val::str_bytes(&names[i]), Val::L(deps.iter().map(|d| Val::str_bytes(d)).collect())]);
    }
    let core = CoreG { rule: RObj::one(RKey::Kind("number".into())), utils: utils.clone(), ..Default::default() };
    let yaml = format!("{}", core.yaml(0));
    let r = catch_unwind(AssertUnwindSafe(|| {
      let ser: ast_grep_config::SerializableRuleCore = from_str(&yaml).map_err(|e| e.to_string())?;
      let map = ser.utils.clone().unwrap_or_default();
      DeserializeEnv::new(SupportLang::TypeScript).with_utils(&map).map(|_| ()).map_err(|e| {
        let mut m = e.to_string();
        let mut cur = std::error::Error::source(&e);
        while let Some(c) = cur {
          m = format!("{m} | {c}");
          cur = c.source();
        }
        m
      })
    }));
    out.checked();
    let g: BTreeMap<String, Vec<String>> = utils.iter().map(|(id, r)| { let mut v = vec![]; same_node_refs(r, &mut v); (id.clone(), v) }).collect();
    match r {
      Ok(Ok(())) => {
        out.count("topo:accepted");
        // the order itself depends on hash-map iteration: the model's order is checked by theorem; here accept/reject
        out.case(49, &Val::L(wire_map), &vl![Val::Z(0)], &format!("with_utils accepts {}", q(&yaml)));
        if let Some(k) = g.keys().find(|k| on_cycle(&g, k)) {
          out.oracle_fail("", &format!("with_utils accepts utilities although {k} requires itself on the same node: {}", q(&yaml)), json!({"stream": "c12-topo", "yaml": yaml}));
        }
      }
      Ok(Err(m)) if m.contains("cyclic dependency") => {
        out.count("topo:cyclic");
        out.nontrivial(&yaml);
        let key = m.split("Rule `").nth(1).and_then(|s| s.split('`').next()).unwrap_or("").to_string();
        out.case(49, &Val::L(wire_map), &vl![Val::Z(1)], &format!("with_utils reports a cycle at {key} for {}", q(&yaml)));
        if !on_cycle(&g, &key) {
          out.oracle_fail("", &format!("with_utils reports a cycle at `{key}`, which is on no same-node cycle: {}", q(&yaml)), json!({"stream": "c12-topo", "yaml": yaml}));
        }
      }
      Ok(Err(m)) => {
        out.count("topo:other-error");
        let _ = m;
      }
      Err(_) => out.oracle_fail("", &format!("with_utils panicked on {}", q(&yaml)), json!({"stream": "c12-topo", "yaml": yaml})),
    }
  }
}

fn global_cases(rng: &mut Rng, out: &mut Out, n: usize, info: &DocInfo) {
  for _ in 0..n {
    let k = 1 + rng.below(4);
    let names: Vec<String> = (0..k).map(|i| format!("g{i}")).collect();
    let mut cores: Vec<(String, CoreG)> = vec![];
    for i in 0..k {
      let mut c = CoreG::default();
      let mut parts = vec![RObj::one(RKey::Pattern { text: "$A".into(), selector: None, strictness: None })];
      let tgt = |rng: &mut Rng| if rng.chance(2, 3) { names[(i + 1 + rng.below(k)) % k].clone() } else { names[rng.below(k)].clone() };
      match rng.below(6) {
        0 => parts.push(RObj::one(RKey::Matches(tgt(rng)))),
        1 => {
          c.utils.push(("loc".into(), RObj::one(RKey::Any(vec![RObj::one(RKey::Kind("number".into())), RObj::one(RKey::Matches(tgt(rng)))]))));
          parts.push(RObj::one(RKey::Matches("loc".into())));
        }
        2 => c.cons.push(("A".into(), RObj::one(RKey::Matches(tgt(rng))))),
        3 => parts.push(RObj::one(RKey::Has(Box::new(Rel { rule: RObj::one(RKey::Matches(tgt(rng))), stop: Stop::End, field: None })))),
        _ => {}
      }
      c.rule = if parts.len() == 1 { parts.pop().unwrap() } else { RObj::one(RKey::All(parts)) };
      cores.push((names[i].clone(), c));
    }
    let r = catch_unwind(AssertUnwindSafe(|| {
      let mut gs = vec![];
      for (id, c) in &cores {
        let y = format!("id: {id}\nlanguage: TypeScript\n{}", c.yaml(0));
        gs.push(from_str(&y).map_err(|e| format!("yaml {e}"))?);
      }
      DeserializeEnv::<SupportLang>::parse_global_utils(gs).map(|_| ()).map_err(|e| {
        let mut m = e.to_string();
        let mut cur = std::error::Error::source(&e);
        while let Some(c) = cur {
          m = format!("{m} | {c}");
          cur = c.source();
        }
        m
      })
    }));
    out.checked();
    let human = cores.iter().map(|(id, c)| format!("{id}: {}", q(&c.yaml(0)))).collect::<Vec<_>>().join("; ");
    let Ok(wire) = cores.iter().map(|(id, c)| Ok(vl![Val::str_bytes(id), c.wire(info)?])).collect::<Result<Vec<_>, WireErr>>() else { continue };
    match r {
      Ok(Ok(())) => {
        out.count("globals:accepted");
        out.case(50, &Val::L(wire), &vl![Val::Z(0)], &format!("parse_global_utils accepts {human}"));
      }
      Ok(Err(m)) if m.contains("cyclic dependency") => {
        out.count("globals:cyclic");
        out.nontrivial(&human);
        out.case(50, &Val::L(wire), &vl![Val::Z(1)], &format!("parse_global_utils reports a cycle for {human}"));
      }
      Ok(Err(_)) => out.count("globals:other-error"),
      Err(_) => out.oracle_fail("", &format!("parse_global_utils panicked on {human}"), json!({"stream": "c12-globals", "rules": human})),
    }
  }
}

pub fn run(o: &Opts) {
  let mut out = Out::new(&o.out);
  let mut rng = Rng::new(o.seed ^ 0xc12);
  let n_docs = if o.thorough { 6000 } else { 1500 };
  let sg = corpus::parse(SupportLang::TypeScript, "1");
  let nodes = corpus::all_nodes(sg.root());
  let ids: HashMap<usize, usize> = HashMap::new();
  let info = DocInfo { lang: SupportLang::TypeScript, nodes: &nodes, ids: &ids };
  let globs = globals();
  let mut sampled = 0;
  for it in 0..n_docs {
    let with_global = it % 3 == 0;
    let mut d = gen_valid(&mut rng, with_global);
    let np = match rng.below(10) {
      0 | 1 => 0,
      9 => 2,
      _ => 1,
    };
    if np == 0 {
      out.count("perturbation:none");
    }
    for _ in 0..np {
      perturb(&mut rng, &mut d, &mut out);
    }
    let yaml = d.yaml();
    let gl: Vec<&str> = if with_global { vec!["g0"] } else { vec![] };
    let res = catch_unwind(AssertUnwindSafe(|| from_yaml_string::<SupportLang>(&yaml, if with_global { &globs } else { Box::leak(Box::new(GlobalRules::default())) })));
    out.checked();
    let (code, key): (Vec<i128>, Option<String>) = match &res {
      Ok(Ok(_)) => (vec![0], None),
      Ok(Err(e)) => {
        let mut c = vec![1];
        c.extend(err_code(e));
        (c, named_key(e))
      }
      Err(_) => {
        out.oracle_fail("", &format!("from_yaml_string panicked on {}", q(&yaml)), json!({"stream": "c12", "yaml": yaml}));
        continue;
      }
    };
    out.count(&format!("outcome:{}", code.iter().map(|c| c.to_string()).collect::<Vec<_>>().join("-")));
    if code.contains(&50) {
      // refused for a reason outside the model (a part that does not parse): not compared
      out.count("outcome:outside-the-model");
      continue;
    }
    let Ok(w) = d.wire(&info, &gl) else {
      out.count("wire:unresolved");
      continue;
    };
    out.case(48, &w, &Val::L(code.iter().map(|c| Val::Z(*c)).collect()), &format!("from_yaml_string on {}", q(&yaml)));
    if code == vec![0] {
      out.nontrivial(&yaml);
      if sampled < 2 {
        sampled += 1;
        out.sample(json!({"accepted": yaml}));
      }
      if let Err(why) = accepted_is_consistent(&d, &gl) {
        out.oracle_fail("", &format!("accepted although {why}: {}", q(&yaml)), json!({"stream": "c12", "yaml": yaml}));
      }
    } else if let Some(k) = key {
      // a reported cycle names a key that really is on a cycle
      let cores: Vec<&CoreG> = std::iter::once(&d.core).chain(d.rewriters.iter().flatten().map(|r| &r.1)).collect();
      let real = cores.iter().any(|c| on_cycle(&util_graph(c), &k) || on_cycle(&trans_graph(c), &k));
      if !real {
        out.oracle_fail("", &format!("refused as cyclic at `{k}`, which is on no same-node utility cycle and no transformation cycle: {}", q(&yaml)), json!({"stream": "c12", "yaml": yaml}));
      }
    }
  }
  topo_cases(&mut rng, &mut out, if o.thorough { 1500 } else { 400 });
  global_cases(&mut rng, &mut out, if o.thorough { 1200 } else { 300 }, &info);
  converse(&mut rng, &mut out, if o.thorough { 3000 } else { 700 });
  out.finish("rule documents assembled from valid parts (0-3 utilities referring to earlier ones below every operator, constraints, chained transformations, rewriters, string / object fix with expansions, optional global utility) \
              with 0-2 perturbations (reference renamed anywhere incl. utility bodies, constraints, expansions; back reference closing a cycle below all/any/not/nthChild.ofRule/multi-key/relational/stopBy; undefined variable in fix, \
              transform source, constraint key; transformation key already defined; transformation cycles; malformed source; undefined / fix-less / nested rewriter; rule without kinds) loaded by from_yaml_string: outcome tied to the model's `load` (fid 48); \
              every accepted document re-checked by an independent graph search and variable scan, every reported cycle key checked to lie on a cycle; TopologicalSort through with_utils on random maps (fid 49) and parse_global_utils on global rule sets \
              with local-utility / constraint / relational references (fid 50); and for accepted rules with a fix (string and object form, transformation names that extend variable names) the replacement is compared with an independent \
              substitution of captured and substring-transformed texts. non-trivial = distinct accepted documents / cyclic maps / (template, replacement) pairs");
}
