//! C13 — results do not depend on map order, hash seeds, repetition or file order.
//! Rust's HashMap gets a fresh seed per map instance, so loading the same rule document again — in the
//! same process or in a new one — samples another iteration order of every map in it.
use crate::cli::{fresh_dir, json_lines, sg};
use crate::out::Out;
use crate::rng::Rng;
use crate::Opts;
use ast_grep_config::{from_yaml_string, GlobalRules};
use ast_grep_core::matcher::MatcherExt;
use ast_grep_core::Language;
use ast_grep_language::SupportLang;
use serde_json::{json, Value};
use std::collections::BTreeMap;
use std::panic::{catch_unwind, AssertUnwindSafe};

/// YAML maps given as (key, body) lists so that the textual key order can be permuted
struct Doc {
  head: String,                      // id / language / message / rule
  maps: Vec<(String, Vec<(String, String)>)>,   // "utils" / "constraints" / "transform" -> entries (body lines indented by 4)
  tail: String,                      // rewriters (a list) / fix
  class: &'static str,
}

impl Doc {
  fn yaml(&self, rng: &mut Rng, permute: bool) -> String {
    let mut s = self.head.clone();
    for (name, entries) in &self.maps {
      let mut idx: Vec<usize> = (0..entries.len()).collect();
      if permute {
        rng.shuffle(&mut idx);
      }
      s.push_str(&format!("{name}:\n"));
      for i in idx {
        s.push_str(&format!("  {}:\n{}", entries[i].0, entries[i].1));
      }
    }
    s.push_str(&self.tail);
    s
  }
}

fn docs() -> Vec<Doc> {
  let e = |k: &str, b: &str| (k.to_string(), b.to_string());
  vec![
    Doc { head: "id: t1\nlanguage: TypeScript\nmessage: got $Z and $Y\nrule:\n  pattern: foo($A, $B)\n".into(),
      maps: vec![
        ("constraints".into(), vec![e("A", "    regex: '^a'\n"), e("B", "    kind: number\n")]),
        ("transform".into(), vec![
          e("X", "    substring:\n      source: $A\n      startChar: 1\n"),
          e("Y", "    replace:\n      source: $X\n      replace: b\n      by: Q\n"),
          e("Z", "    convert:\n      source: $Y\n      toCase: upperCase\n"),
          e("W", "    substring:\n      source: $Z\n      endChar: -1\n")]),
      ], tail: "fix: bar($Z, $Y, $X, $W)\n".into(), class: "" },
    Doc { head: "id: t2\nlanguage: TypeScript\nmessage: util chain\nrule:\n  matches: u3\n  inside:\n    kind: arguments\n".into(),
      maps: vec![("utils".into(), vec![
        e("u1", "    kind: number\n"),
        e("u2", "    any:\n      - matches: u1\n      - kind: string\n"),
        e("u3", "    all:\n      - matches: u2\n      - not:\n          kind: string\n"),
        e("u4", "    any:\n      - matches: u3\n      - matches: u1\n")])],
      tail: "fix: N\n".into(), class: "" },
    Doc { head: "id: t3\nlanguage: TypeScript\nmessage: shared $B\nrule:\n  pattern: f($A, $C)\n".into(),
      maps: vec![("constraints".into(), vec![e("A", "    pattern: $B\n"), e("C", "    pattern: $B\n")])],
      tail: "fix: g($B, $A)\n".into(), class: "" },
    Doc { head: "id: t4\nlanguage: TypeScript\nmessage: rewrite $NEW\nrule:\n  pattern: bar([$$$E], $N)\n".into(),
      maps: vec![("transform".into(), vec![
        e("NEW", "    rewrite:\n      source: $$$E\n      rewriters: [num, str]\n      joinBy: ' + '\n"),
        e("UP", "    convert:\n      source: $NEW\n      toCase: upperCase\n")])],
      tail: "rewriters:\n- id: num\n  rule:\n    kind: number\n  fix: n\n- id: str\n  rule:\n    kind: string\n  fix: s\nfix: baz($UP, $NEW)\n".into(), class: "" },
    // the kinds of an `all` are cached when it is built: a utility reached only through nthChild.ofRule must be
    // registered before its user (it is, since the dependency fix), else acceptance depends on the registration order
    Doc { head: "id: t5\nlanguage: TypeScript\nmessage: cached kinds\nrule:\n  matches: A\n".into(),
      maps: vec![("utils".into(), vec![
        e("A", "    all:\n      - nthChild:\n          position: 1\n          ofRule:\n            matches: B\n"),
        e("B", "    kind: number\n")])],
      tail: "".into(), class: "" },
    // utilities that refer to each other below a relational rule are NOT ordered by the loader (no same-node
    // dependency): whichever is built first, the kind cache of the `any` / `all` next to the reference must not
    // depend on it
    Doc { head: "id: t6\nlanguage: TypeScript\nmessage: relational reference\nrule:\n  matches: in-call\n".into(),
      maps: vec![("utils".into(), vec![
        e("in-call", "    kind: number\n    inside:\n      stopBy: end\n      any:\n        - matches: log-call\n        - kind: new_expression\n"),
        e("log-call", "    pattern: console.log($$$)\n"),
        e("aa-call", "    pattern: qux($$$)\n"),
        e("zz-call", "    kind: string\n    inside:\n      stopBy: end\n      all:\n        - matches: aa-call\n        - kind: call_expression\n")])],
      tail: "".into(), class: "" },
    // a local utility that shadows a global one, referred to from below a relational rule of another local utility:
    // whichever of the two is built first, the reference means the LOCAL utility
    Doc { head: "id: t8\nlanguage: TypeScript\nmessage: shadowed global\nrule:\n  matches: literal-call\n".into(),
      maps: vec![("utils".into(), vec![
        e("is-literal", "    kind: string\n"),
        e("literal-call", "    kind: call_expression\n    has:\n      stopBy: end\n      matches: is-literal\n"),
        e("aa-first", "    kind: number\n"),
        e("zz-last", "    kind: call_expression\n    has:\n      stopBy: end\n      any:\n        - matches: is-literal\n        - kind: regex\n")])],
      tail: "".into(), class: "" },
    // a rewriter runs on the variables the MATCH bound: the rule's other transformations - computed before or after the
    // `rewrite`, in whatever order the map yields them - are not visible inside it (`$$$NAME` there expands to nothing)
    Doc { head: "id: t9\nlanguage: TypeScript\nmessage: rewriter next to independent transformations $NEW\nrule:\n  pattern: $F($$$ARGS)\n".into(),
      maps: vec![
        ("constraints".into(), vec![e("F", "    regex: '^qux$'\n")]),
        ("transform".into(), vec![
          e("NAME", "    convert:\n      source: $F\n      toCase: upperCase\n"),
          e("NEW", "    rewrite:\n      source: $$$ARGS\n      rewriters: [tag]\n      joinBy: ', '\n"),
          e("AA", "    substring:\n      source: $F\n      endChar: 2\n"),
          e("ZZ", "    replace:\n      source: $F\n      replace: q\n      by: Q\n")])],
      tail: "rewriters:\n- id: tag\n  rule:\n    kind: number\n    pattern: $N\n  fix: '$$$NAME($N)$$$AA$$$ZZ'\nfix: call($NEW, $NAME)\n".into(), class: "" },
    // a chain of transformations whose sources name the earlier one in the `$$VAR` and `$$$VAR` spellings: the order
    // of application must follow the dependencies whatever spelling carries them, not the order the map yields
    Doc { head: "id: t10\nlanguage: TypeScript\nmessage: chained transformations $UP $LOW\nrule:\n  pattern: $F($$$ARGS)\n".into(),
      maps: vec![
        ("constraints".into(), vec![e("F", "    regex: '^qux$'\n")]),
        ("transform".into(), vec![
          e("REP", "    replace:\n      source: $F\n      replace: q\n      by: bb\n"),
          e("UP", "    convert:\n      source: $$REP\n      toCase: upperCase\n"),
          e("LOW", "    substring:\n      source: $$$UP\n      startChar: 1\n")])],
      tail: "fix: $UP($LOW)\n".into(), class: "" },
    Doc { head: "id: t7\nlanguage: TypeScript\nmessage: relational reference 2\nrule:\n  any:\n    - matches: zz-call\n    - matches: in-call\n".into(),
      maps: vec![("utils".into(), vec![
        e("in-call", "    kind: number\n    has:\n      stopBy: end\n      any:\n        - matches: log-call\n        - kind: new_expression\n"),
        e("log-call", "    kind: number\n"),
        e("aa-call", "    pattern: qux($$$)\n"),
        e("zz-call", "    kind: string\n    inside:\n      stopBy: end\n      all:\n        - matches: aa-call\n        - kind: call_expression\n")])],
      tail: "".into(), class: "" },
  ]
}

const SRC: &str = "foo(abc, 12);\nfoo(abd, 'x');\nf(x, x);\nf(x, y);\nbar([1, 's', 2], 3);\nqux(7, 'k', 8);\nconsole.log(1);\nnew Foo(2);\nbar(3);\n";

fn outcome(yaml: &str) -> Value {
  let r = catch_unwind(AssertUnwindSafe(|| {
    // one global utility is always registered: a LOCAL utility of the same id shadows it (document t8)
    let globals = ast_grep_config::from_str("id: is-literal\nlanguage: TypeScript\nrule:\n  kind: number\n").ok()
      .and_then(|g| ast_grep_config::DeserializeEnv::<SupportLang>::parse_global_utils(vec![g]).ok()).unwrap_or_else(GlobalRules::default);
    let rules = match from_yaml_string::<SupportLang>(yaml, &globals) {
      Ok(r) => r,
      Err(e) => return json!({"load": "rejected", "error_class": format!("{e}").split(':').next().unwrap_or("").chars().take(40).collect::<String>()}),
    };
    let rule = &rules[0];
    let g = SupportLang::TypeScript.ast_grep(SRC);
    let mut found = vec![];
    for n in g.root().dfs() {
      if let Some(nm) = rule.matcher.match_node(n.clone()) {
        let env = nm.get_env();
        let mut vars: BTreeMap<String, Value> = BTreeMap::new();
        for v in ["A", "B", "C", "N", "X", "Y", "Z", "W", "NEW", "UP"] {
          if let Some(m) = env.get_match(v) {
            vars.insert(v.into(), json!([m.range().start, m.range().end]));
          }
          if let Some(t) = env.get_transformed(v) {
            vars.insert(format!("t:{v}"), json!(String::from_utf8_lossy(t)));
          }
        }
        let fix = rule.matcher.fixer.as_ref().map(|f| { let e = nm.make_edit(&rule.matcher, f); json!([e.position, e.deleted_length, String::from_utf8_lossy(&e.inserted_text)]) });
        found.push(json!({"range": [nm.range().start, nm.range().end], "message": rule.get_message(&nm), "vars": vars, "fix": fix}));
      }
    }
    json!({"load": "ok", "findings": found})
  }));
  r.unwrap_or_else(|_| json!({"load": "panic"}))
}

pub fn run(o: &Opts) {
  let mut out = Out::new(&o.out);
  let mut rng = Rng::new(o.seed ^ 0xc13);
  let reps = if o.thorough { 64 } else { 16 };
  let launches = if o.thorough { 32 } else { 8 };
  let mut sampled = false;
  for d in docs() {
    // ---- A: repeated loads in one process, textual key order permuted
    let base = outcome(&d.yaml(&mut rng, false));
    let mut differing = None;
    for _ in 0..reps {
      let y = d.yaml(&mut rng, true);
      let r = outcome(&y);
      out.checked();
      if r != base && differing.is_none() {
        differing = Some((y, r));
      }
    }
    out.count(&format!("doc:{}", d.head.lines().next().unwrap_or("")));
    if base["findings"].as_array().map(|a| !a.is_empty()).unwrap_or(false) {
      out.nontrivial(&d.head);
      if !sampled {
        sampled = true;
        out.sample(json!({"rule": d.yaml(&mut rng, false), "findings": base["findings"].as_array().map(|a| a.len())}));
      }
    }
    if let Some((y, r)) = differing {
      out.oracle_fail(d.class, &format!("loading and scanning the same rule document again gives a different result: first {}, later {} (rule {})", base.to_string().chars().take(300).collect::<String>(), r.to_string().chars().take(300).collect::<String>(), serde_json::to_string(&y).unwrap()),
        json!({"stream": "c13-inprocess", "rule": y}));
    }
    // ---- B: fresh process launches
    let dir = fresh_dir(&o.out, &format!("launch_{}", d.head.lines().next().unwrap_or("x").replace("id: ", "")));
    std::fs::write(dir.join("a.ts"), SRC).unwrap();
    let rp = o.out.join(format!("rule_{}.yml", d.head.lines().next().unwrap_or("x").replace("id: ", "")));
    std::fs::write(&rp, d.yaml(&mut rng, false)).unwrap();
    let rabs = std::fs::canonicalize(&rp).unwrap();
    let mut first: Option<(Option<i32>, Vec<String>)> = None;
    let mut diff = None;
    for l in 0..launches {
      let r = sg(&dir, &["scan", "-r", rabs.to_str().unwrap(), "--json=stream", "a.ts"], None, 30);
      out.checked();
      let mut recs: Vec<String> = json_lines(&r.stdout).unwrap_or_default().iter().map(|v| v.to_string()).collect();
      recs.sort();
      let cur = (r.code, recs);
      match &first {
        None => first = Some(cur),
        Some(f) => if *f != cur && diff.is_none() { diff = Some((l, cur)); }
      }
    }
    if let (Some(f), Some((l, c))) = (&first, diff) {
      out.oracle_fail(d.class, &format!("`sg scan -r {}` launch {l} differs from launch 0: exit {:?} / {} records vs exit {:?} / {} records; first difference {:?}", rabs.display(), c.0, c.1.len(), f.0, f.1.len(),
        c.1.iter().find(|x| !f.1.contains(x)).or_else(|| f.1.iter().find(|x| !c.1.contains(x))).map(|s| s.chars().take(300).collect::<String>())), json!({"stream": "c13-launches", "rule": d.yaml(&mut rng, false)}));
    }
  }
  // ---- C: rule file order / names; D: snapshot round trip
  let proj = fresh_dir(&o.out, "proj");
  let ds = docs();
  let mut results: Vec<Vec<String>> = vec![];
  for variant in 0..3 {
    let p = proj.join(format!("v{variant}"));
    std::fs::create_dir_all(p.join("rules")).unwrap();
    std::fs::create_dir_all(p.join("src")).unwrap();
    std::fs::write(p.join("sgconfig.yml"), "ruleDirs: [rules]\n").unwrap();
    std::fs::write(p.join("src/a.ts"), SRC).unwrap();
    std::fs::write(p.join("src/b.ts"), SRC.replace("abc", "aqq")).unwrap();
    for (i, d) in ds.iter().enumerate().filter(|(_, d)| d.class.is_empty()) {
      // file names decide the walk order: forward, reversed, all rules in ONE file in reverse document order
      let name = match variant { 0 => format!("rules/{i}-rule.yml"), 1 => format!("rules/{}-rule.yml", 9 - i), _ => "rules/all.yml".to_string() };
      let y = d.yaml(&mut rng, variant > 0);
      if variant == 2 {
        let cur = std::fs::read_to_string(p.join(&name)).unwrap_or_default();
        std::fs::write(p.join(&name), if cur.is_empty() { y } else { format!("{y}---\n{cur}") }).unwrap();
      } else {
        std::fs::write(p.join(&name), y).unwrap();
      }
    }
    let r = sg(&p, &["scan", "--json=stream"], None, 60);
    out.checked();
    let mut recs: Vec<String> = json_lines(&r.stdout).unwrap_or_default().iter().map(|v| v.to_string()).collect();
    recs.sort();
    results.push(recs);
  }
  if results.windows(2).any(|w| w[0] != w[1]) {
    out.oracle_fail("", &format!("the same rules in differently named / ordered rule files give different findings: {} / {} / {} records", results[0].len(), results[1].len(), results[2].len()), json!({"stream": "c13-file-order"}));
  }
  if !results[0].is_empty() {
    out.nontrivial(&("file-order", results[0].len()));
  }
  // E: several fixable rules (some with files/ignores globs) that want to rewrite the same node: the file written by
  // `sg scan -U` must not depend on the order of the rule documents / rule files
  {
    let rule_docs = [
      "id: to-let\nlanguage: TypeScript\nmessage: m\nfiles: ['src/**']\nrule:\n  pattern: var $A = $B\nfix: let $A = $B\n",
      "id: to-const\nlanguage: TypeScript\nmessage: m\nfiles: ['src/**']\nrule:\n  pattern: var $A = $B\nfix: const $A = $B\n",
      "id: plain-fix\nlanguage: TypeScript\nmessage: m\nrule:\n  pattern: var $A = $B\nfix: VAR($A, $B)\n",
      "id: ignoring\nlanguage: TypeScript\nmessage: m\nignores: ['lib/**']\nrule:\n  pattern: foo($X)\nfix: qux($X)\n",
    ];
    let mut outcomes: Vec<(Vec<usize>, String, String)> = vec![];
    // first without the glob-less competitor (it would always win), then with it
    for (gi, orders) in [vec![vec![0usize, 1, 3], vec![1, 0, 3], vec![3, 1, 0]], vec![vec![0, 1, 2, 3], vec![1, 0, 3, 2], vec![3, 2, 1, 0], vec![2, 0, 3, 1]]].iter().enumerate() {
    let base_idx = outcomes.len();
    for (oi, ord) in orders.iter().enumerate() {
      let oi = oi + gi * 10;
      for one_file in [true, false] {
        let p = proj.join(format!("e{oi}_{one_file}"));
        std::fs::create_dir_all(p.join("rules")).unwrap();
        std::fs::create_dir_all(p.join("src")).unwrap();
        std::fs::write(p.join("sgconfig.yml"), "ruleDirs: [rules]\n").unwrap();
        std::fs::write(p.join("src/a.ts"), "var x = 1\nfoo(2)\nvar y = foo(3)\n").unwrap();
        if one_file {
          std::fs::write(p.join("rules/all.yml"), ord.iter().map(|i| rule_docs[*i]).collect::<Vec<_>>().join("---\n")).unwrap();
        } else {
          for (k, i) in ord.iter().enumerate() {
            std::fs::write(p.join(format!("rules/{k}-r.yml")), rule_docs[*i]).unwrap();
          }
        }
        let j = sg(&p, &["scan", "--json=stream"], None, 60);
        let mut recs: Vec<String> = json_lines(&j.stdout).unwrap_or_default().iter().map(|v| v.to_string()).collect();
        recs.sort();
        let _u = sg(&p, &["scan", "-U"], None, 60);
        out.checked();
        outcomes.push((ord.clone(), std::fs::read_to_string(p.join("src/a.ts")).unwrap_or_default(), recs.join("\n")));
      }
    }
    out.count("layout:competing-fixes");
    let first = outcomes[base_idx].clone();
    if let Some(bad) = outcomes[base_idx..].iter().find(|x| x.1 != first.1 || x.2 != first.2) {
      out.oracle_fail("", &format!("the same rules in document order {:?} vs {:?}: `sg scan -U` writes {:?} vs {:?} (findings identical: {})", first.0, bad.0, first.1, bad.1, first.2 == bad.2),
        json!({"stream": "c13-fix-order", "rules": rule_docs}));
    }
    }
  }
  // E: `sg scan -U` on a project whose file has several unused suppression comments (their deletion is a fix of the
  //    built-in unused-suppression rule, collected from a hash map) next to fixable findings: every launch must
  //    write the same bytes
  {
    let launches = if o.thorough { 24 } else { 8 };
    let mut written: Vec<String> = vec![];
    for l in 0..launches {
      let p = proj.join(format!("u{l}"));
      std::fs::create_dir_all(p.join("rules")).unwrap();
      std::fs::create_dir_all(p.join("src")).unwrap();
      std::fs::write(p.join("sgconfig.yml"), "ruleDirs: [rules]\n").unwrap();
      std::fs::write(p.join("rules/fx.yml"), "id: fx\nlanguage: TypeScript\nmessage: m\nseverity: warning\nrule:\n  pattern: foo($A)\nfix: qux($A)\n").unwrap();
      let mut src = String::new();
      for i in 0..6 {
        src.push_str(&format!("// ast-grep-ignore: other{i}\nbaz({i});\n"));
        if i % 2 == 0 {
          src.push_str(&format!("foo({i});\n"));
        }
      }
      src.push_str("// ast-grep-ignore\nfoo(9);\nbar(1); // ast-grep-ignore: nothing\n");
      std::fs::write(p.join("src/a.ts"), &src).unwrap();
      let r = sg(&p, &["scan", "-U"], None, 60);
      let after = std::fs::read_to_string(p.join("src/a.ts")).unwrap_or_default();
      written.push(format!("exit {:?}\n{}\n{after}", r.code, r.stdout.lines().filter(|l| l.contains("Applied")).collect::<Vec<_>>().join(" ")));
    }
    out.checked();
    out.count("layout:unused-suppressions-under-update-all");
    if let Some(bad) = written.iter().find(|w| **w != written[0]) {
      out.oracle_fail("", &format!("`sg scan -U` on the same project (6 unused suppression comments and fixable findings in one file) in {launches} launches writes different results: {:?} vs {:?}", written[0], bad),
        json!({"stream": "c13-unused-suppressions"}));
    }
  }
  // F: the project's own maps: `languageGlobs` entries of several languages claiming the same files (any key order in
  //    the file, any launch): which language a file gets, hence which rules run on it, must be the same every time
  {
    let langs = ["tsx", "javascript", "python", "typescript"];
    let mut per_order: Vec<Vec<String>> = vec![];
    let launches = if o.thorough { 12 } else { 6 };
    for order in 0..3 {
      let p = fresh_dir(&o.out, &format!("lang_globs_{order}"));
      std::fs::create_dir_all(p.join("rules")).unwrap();
      let mut keys: Vec<&str> = langs.to_vec();
      keys.rotate_left(order);
      if order == 2 {
        keys.reverse();
      }
      let mut cfg = String::from("ruleDirs: [rules]\nlanguageGlobs:\n");
      for k in &keys {
        cfg.push_str(&format!("  {k}: ['*.ts', '*.foo']\n"));
      }
      std::fs::write(p.join("sgconfig.yml"), cfg).unwrap();
      let y: Vec<String> = langs.iter().map(|l| format!("id: r-{l}\nlanguage: {l}\nseverity: warning\nmessage: m\nrule:\n  pattern: foo($A)\n")).collect();
      std::fs::write(p.join("rules/r.yml"), y.join("---\n")).unwrap();
      std::fs::write(p.join("a.ts"), "foo(1)\n").unwrap();
      std::fs::write(p.join("b.foo"), "foo(2)\n").unwrap();
      let mut seen: Vec<String> = vec![];
      for _ in 0..launches {
        let r = sg(&p, &["scan", "--json=stream"], None, 60);
        out.checked();
        out.count("launch:overlapping-language-globs");
        let mut ids: Vec<String> = json_lines(&r.stdout).unwrap_or_default().iter().map(|v| format!("{}:{}", v["file"].as_str().unwrap_or("").trim_start_matches("./"), v["ruleId"].as_str().unwrap_or(""))).collect();
        ids.sort();
        seen.push(ids.join(","));
      }
      if !seen[0].is_empty() {
        out.nontrivial(&("lang-globs", order, seen[0].clone()));
      } else {
        out.count("launch:overlapping-language-globs(no finding at all)");
      }
      per_order.push(seen);
    }
    let all: Vec<&String> = per_order.iter().flatten().collect();
    if let Some(bad) = all.iter().find(|s| **s != all[0]) {
      out.oracle_fail("", &format!("`sg scan` on a project whose languageGlobs give the same files (*.ts, *.foo) to four languages, in {launches} launches x 3 key orders of the same map: the rules applied differ between launches: {:?} vs {:?}", all[0], bad),
        json!({"stream": "c13-language-globs", "results": per_order}));
    }
  }
  // D: sg test --update-all, then sg test passes and a second update leaves the snapshots byte-identical
  {
    let p = proj.join("v0");
    std::fs::create_dir_all(p.join("tests")).unwrap();
    std::fs::write(p.join("sgconfig.yml"), "ruleDirs: [rules]\ntestConfigs:\n  - testDir: tests\n").unwrap();
    for d in ds.iter().filter(|d| d.class.is_empty()) {
      let id = d.head.lines().next().unwrap().replace("id: ", "");
      let invalid: Vec<&str> = match id.as_str() { "t1" => vec!["foo(abc, 12)", "foo(abx, 3)"], "t2" => vec!["qux(7, 'k', 8)"], "t3" => vec!["f(x, x)"], "t6" => vec!["console.log(1)"], "t7" => vec!["qux(7, 'k', 8)"], "t8" => vec!["qux(7, 'k', 8)"], "t9" => vec!["qux(7, 'k', 8)"], "t10" => vec!["qux(7, 'k', 8)"], _ => vec!["bar([1, 's', 2], 3)"] };
      std::fs::write(p.join(format!("tests/{id}-test.yml")), format!("id: {id}\nvalid:\n  - \"nothing()\"\ninvalid:\n{}", invalid.iter().map(|s| format!("  - {}\n", serde_json::to_string(s).unwrap())).collect::<String>())).unwrap();
    }
    let snap = |p: &std::path::Path| -> BTreeMap<String, Vec<u8>> {
      let mut m = BTreeMap::new();
      if let Ok(rd) = std::fs::read_dir(p.join("tests/__snapshots__")) {
        for e in rd.flatten() {
          m.insert(e.file_name().to_string_lossy().to_string(), std::fs::read(e.path()).unwrap_or_default());
        }
      }
      m
    };
    let u1 = sg(&p, &["test", "-U"], None, 60);
    let s1 = snap(&p);
    let t = sg(&p, &["test"], None, 60);
    let u2 = sg(&p, &["test", "-U"], None, 60);
    let s2 = snap(&p);
    out.checked();
    out.count("snapshot:round-trips");
    if u1.timed_out || t.timed_out || t.code != Some(0) || s1.is_empty() || s1 != s2 || u2.code != Some(0) {
      out.oracle_fail("", &format!("sg test -U then sg test: update exit {:?}, test exit {:?}, {} snapshot files, identical after a second update: {}", u1.code, t.code, s1.len(), s1 == s2),
        json!({"stream": "c13-snapshot", "stdout": t.stdout.chars().take(400).collect::<String>()}));
    }
  }
  out.finish("rule documents with inter-dependent utilities (chains through all/any/not/matches), transformation chains (substring -> replace -> convert -> substring), constraints that bind a shared new variable, \
              rewriters with joinBy: each loaded and run 16 (64) times in one process with the textual key order of utils / constraints / transform permuted (every load gives every HashMap a new seed) and 8 (32) times in fresh processes; \
              four fixable rules competing for the same node (two with files globs, one with ignores) in 4 document orders x one-file/many-files: `sg scan -U` must write the same bytes; accept/reject, findings, messages, meta-variable ranges, transformed values and fixes must be identical; the same rules in rule files named/ordered differently or collected in one file; \
              a project whose languageGlobs give the same files to four languages (3 key orders x repeated launches: the same rules must run every time); `sg test -U` then `sg test` then `sg test -U` with byte-identical snapshot files. non-trivial = the rule has findings");
}
