//! Wire values shared with the Coq model (see coq/theories/Base/Val.v and coq/extract/driver.ml)
use std::fmt::{self, Display, Write};

#[derive(Clone, Debug, PartialEq, Eq, Hash)]
pub enum Val {
  Z(i128),
  /// byte string or code-point string
  S(Vec<u32>),
  L(Vec<Val>),
}

impl Val {
  pub fn n(x: usize) -> Val {
    Val::Z(x as i128)
  }
  pub fn b(x: bool) -> Val {
    Val::Z(if x { 1 } else { 0 })
  }
  pub fn bytes(s: &[u8]) -> Val {
    Val::S(s.iter().map(|b| *b as u32).collect())
  }
  pub fn str_bytes(s: &str) -> Val {
    Val::bytes(s.as_bytes())
  }
  pub fn chars(s: &str) -> Val {
    Val::S(s.chars().map(|c| c as u32).collect())
  }
  pub fn opt(o: Option<Val>) -> Val {
    match o {
      None => Val::L(vec![]),
      Some(v) => Val::L(vec![v]),
    }
  }
  pub fn err(tag: &str) -> Val {
    Val::L(vec![Val::str_bytes("err"), Val::str_bytes(tag)])
  }
}

impl Display for Val {
  fn fmt(&self, f: &mut fmt::Formatter<'_>) -> fmt::Result {
    match self {
      Val::Z(z) => write!(f, "{}", z),
      Val::S(s) => {
        f.write_char('s')?;
        for c in s {
          if *c < 256 {
            write!(f, "{:02x}", c)?;
          } else {
            write!(f, "{{{:x}}}", c)?;
          }
        }
        Ok(())
      }
      Val::L(l) => {
        f.write_char('(')?;
        for (i, v) in l.iter().enumerate() {
          if i > 0 {
            f.write_char(' ')?;
          }
          write!(f, "{}", v)?;
        }
        f.write_char(')')
      }
    }
  }
}

#[macro_export]
macro_rules! vl {
  ($($x:expr),* $(,)?) => { $crate::val::Val::L(vec![$($x),*]) };
}
