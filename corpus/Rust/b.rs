/* b.rs - a tokenizer with error handling */
// Remarque: analyse lexicale, 字句解析
use std::collections::BTreeMap;
use std::str::Chars;

const LONG_TEXT: &str = "Lorem ipsum dolor sit amet, consectetur adipiscing elit, sed do eiusmod tempor incididunt ut labore et dolore magna aliqua, ut enim ad minim veniam, quis nostrud exercitation ullamco laboris nisi ut aliquip ex ea commodo consequat, fin de la línea";

#[derive(Debug, Clone, PartialEq)]
pub enum Token {
    Number(i64),
    Ident(String),
    Symbol(char),
}

#[derive(Debug)]
pub enum LexError {
    UnexpectedChar(char, usize),
    Overflow(usize),
}

pub struct Lexer<'a> {
    chars: std::iter::Peekable<Chars<'a>>,
    pos: usize,
}

impl<'a> Lexer<'a> {
    pub fn new(input: &'a str) -> Self {
	Lexer { chars: input.chars().peekable(), pos: 0 } // tab-indented line
    }

    fn bump(&mut self) -> Option<char> {
        self.pos += 1;
        self.chars.next()
    }

    pub fn next_token(&mut self) -> Result<Option<Token>, LexError> {
        while let Some(&c) = self.chars.peek() {
            if c.is_whitespace() {
                self.bump();
            } else {
                break;
            }
        }
        let c = match self.chars.peek() {
            Some(&c) => c,
            None => return Ok(None),
        };
        if c.is_ascii_digit() {
            let mut value: i64 = 0;
            while let Some(d) = self.chars.peek().and_then(|ch| ch.to_digit(10)) {
                value = value
                    .checked_mul(10)
                    .and_then(|v| v.checked_add(d as i64))
                    .ok_or(LexError::Overflow(self.pos))?;
                self.bump();
            }
            Ok(Some(Token::Number(value)))
        } else if c.is_alphabetic() || c == '_' {
            let mut name = String::new();
            while let Some(&ch) = self.chars.peek() {
                if !(ch.is_alphanumeric() || ch == '_') {
                    break;
                }
                name.push(ch);
                self.bump();
            }
            Ok(Some(Token::Ident(name)))
        } else if "+-*/()=".contains(c) {
            self.bump();
            Ok(Some(Token::Symbol(c)))
        } else {
            Err(LexError::UnexpectedChar(c, self.pos))
        }
    }
}

fn square(x: i64) -> i64 {
    x * x
}

fn add(a: i64, b: i64) -> i64 {
    a + b
}

fn main() {
    square(1);
    square(2);
    square(square(3));
    add(square(1), square(square(2)));
    add(add(1, 2), add(3, add(4, 5)));

    let mut kinds: BTreeMap<&str, usize> = BTreeMap::new();
    for source in ["x = 12 + foo", "変数 * (3 - y)", "héllo # wörld 😀"] {
        let mut lexer = Lexer::new(source);
        loop {
            match lexer.next_token() {
                Ok(Some(Token::Number(n))) if n > 10 => *kinds.entry("big").or_insert(0) += 1,
                Ok(Some(Token::Number(_))) => *kinds.entry("number").or_insert(0) += 1,
                Ok(Some(Token::Ident(_))) => *kinds.entry("ident").or_insert(0) += 1,
                Ok(Some(Token::Symbol(_))) => *kinds.entry("symbol").or_insert(0) += 1,
                Ok(None) => break,
                Err(err) => {
                    println!("erreur: {:?}", err);
                    break;
                }
            }
        }
    }
    println!("{:?} {} {}", kinds, LONG_TEXT.len(), add(square(2), 1));
}
