// a.rs - shapes, traits and iterators
/*
 * Block comment: héllo wörld, 日本語, 😀
 */
use std::collections::HashMap;
use std::fmt;

#[derive(Debug, Clone, PartialEq)]
enum Shape {
    Circle { radius: f64 },
    Rect { width: f64, height: f64 },
    Unit,
}

trait Area {
    fn area(&self) -> f64;
    fn name(&self) -> String {
        String::from("forme")
    }
}

impl Area for Shape {
    fn area(&self) -> f64 {
        match self {
            Shape::Circle { radius } => 3.14159 * radius * radius,
            Shape::Rect { width, height } => width * height,
            Shape::Unit => 1.0, // unit square
        }
    }
}

impl fmt::Display for Shape {
    fn fmt(&self, f: &mut fmt::Formatter<'_>) -> fmt::Result {
        write!(f, "{} ({:.2})", self.name(), self.area())
    }
}

struct Counter<T> {
    counts: HashMap<T, usize>,
}

impl<T: std::hash::Hash + Eq> Counter<T> {
    fn new() -> Self {
        Counter { counts: HashMap::new() }
    }

    fn add(&mut self, key: T) -> usize {
        let entry = self.counts.entry(key).or_insert(0);
        *entry += 1;
        *entry
    }
}

/// foo doubles and adds one
fn foo(x: i32) -> i32 {
    x * 2 + 1
}

fn bar(a: i32, b: i32) -> i32 {
    a - b
}

fn apply<F: Fn(i32) -> i32>(f: F, x: i32) -> i32 {
    f(f(x))
}

fn main() {
    let shapes = vec![
        Shape::Circle { radius: 1.5 },
        Shape::Rect {
            width: 2.0,
            height: 3.5,
        },
        Shape::Unit,
    ];
    let labels = ["héllo wörld", "日本語", "😀"];

    foo(1);
    foo(2);
    foo(foo(1));
    bar(foo(1), foo(foo(2)));
    bar(bar(1, 2), bar(3, 4));
    println!("{}", foo(3));
    println!("{} {}", foo(3), bar(4, 5));
    println!("{}", labels[0]);

    let mut counter = Counter::new();
    for label in labels.iter() {
        counter.add(label.chars().count());
    }

    let total: f64 = shapes
        .iter()
        .filter(|s| s.area() > 1.0)
        .map(|s| s.area())
        .sum();

    let mut i = 0;
    while i < shapes.len() {
        if i % 2 == 0 && shapes[i] != Shape::Unit {
            println!("{}", shapes[i]);
        } else {
            /* skip odd indexes */
        }
        i += 1;
    }
    println!("{:.2} {} {}", total, apply(|v| v * 3, 7), counter.counts.len());
}

// dangling commas before a closer
fn trailing_commas() {
    foo(alpha, beta, gamma,);
    let t = (one, two, three,);
    let a = [1, 2, 3,];
    bar(Point { x: 1, y: 2, }, [p, q,],);
}
