// a.kt - bank accounts sample
/*
 * Block comment: héllo wörld, 日本語, 😀
 */
package corpus.bank

import kotlin.math.max

data class Account(val id: Int, val owner: String, var balance: Double)

sealed class Result {
    data class Ok(val balance: Double) : Result()
    data class Failure(val reason: String) : Result()
}

interface Auditable {
    fun audit(): String
}

class Bank(private val name: String) : Auditable {
    private val accounts = mutableMapOf<Int, Account>()
    private var nextId = 1

    fun open(owner: String, initial: Double = 0.0): Account {
        val account = Account(nextId, owner, max(initial, 0.0))
        accounts[nextId] = account
        nextId += 1
        return account
    }

    fun withdraw(id: Int, amount: Double): Result {
        val account = accounts[id] ?: return Result.Failure("compte inconnu")
        if (amount <= 0.0 || amount > account.balance) {
            return Result.Failure("montant invalide")  // trailing comment
        }
        account.balance -= amount
        return Result.Ok(account.balance)
    }

    fun richest(): Account? {
        return accounts.values.maxByOrNull { it.balance }
    }

    override fun audit(): String {
        return accounts.values
            .filter { it.balance > 0.0 }
            .sortedBy { it.owner }
            .joinToString(", ") { a -> a.owner + "=" + a.balance }
    }
}

fun foo(x: Int): Int {
    return x * 2 + 1
}

fun bar(a: Int, b: Int): Int = a - b

fun describe(result: Result): String {
    return when (result) {
        is Result.Ok -> "ok: " + result.balance
        is Result.Failure -> "échec: " + result.reason
    }
}

fun main() {
    val bank = Bank("Banque Démo")
    val zoe = bank.open("Zoë", 120.5)
    val taro = bank.open("太郎", 80.0)
    bank.open(
        "René",
        15.25
    )

    foo(1)
    foo(2)
    foo(foo(1))
    bar(foo(1), foo(foo(2)))
    bar(bar(1, 2), bar(3, 4))
    println(foo(3))
    println(bar(4, 5))
    println("héllo wörld 😀")

    val numbers = listOf(1, 2, 3, 5, 8, 13)
    val labels = mapOf("un" to 1, "deux" to 2, "三" to 3)
    val squares = numbers.filter { it % 2 == 1 }.map { n -> n * n }

    for (amount in listOf(50.0, 500.0, -1.0)) {
        println(describe(bank.withdraw(zoe.id, amount)))
    }

    var i = 0
    while (i < 3) {
        if (i % 2 == 0 && taro.balance > 10.0) {
            bank.withdraw(taro.id, 10.0)
        } else {
            /* skip this round */
        }
        i++
    }
    println(bank.audit() + " " + squares + " " + labels.size + " " + bank.richest()?.owner)
}
