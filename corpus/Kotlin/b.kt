/* b.kt - a small parser for key=value lines */
// Remarque: analyseur de configuration, 設定パーサー
package corpus.config

enum class Level { DEBUG, INFO, WARN, ERROR }

data class Setting(val key: String, val value: String, val line: Int)

class ParseException(message: String, val line: Int) : Exception(message)

object Defaults {
    const val SEPARATOR = '='
    const val LONG_TEXT = "Lorem ipsum dolor sit amet, consectetur adipiscing elit, sed do eiusmod tempor incididunt ut labore et dolore magna aliqua, ut enim ad minim veniam, quis nostrud exercitation ullamco laboris nisi ut aliquip ex ea commodo consequat, fin de la línea"
    val levels = listOf(Level.DEBUG, Level.INFO, Level.WARN, Level.ERROR)
}

fun square(x: Int): Int = x * x

fun add(a: Int, b: Int): Int = a + b

fun parseLine(text: String, line: Int): Setting? {
	val trimmed = text.trim()  // tab-indented line
    if (trimmed.isEmpty() || trimmed.startsWith("#")) {
        return null
    }
    val index = trimmed.indexOf(Defaults.SEPARATOR)
    if (index <= 0) {
        throw ParseException("séparateur manquant", line)
    }
    return Setting(
        trimmed.substring(0, index).trim(),
        trimmed.substring(index + 1).trim(),
        line
    )
}

fun parseAll(lines: List<String>): Map<String, Setting> {
    val result = linkedMapOf<String, Setting>()
    for ((i, text) in lines.withIndex()) {
        val setting = parseLine(text, i + 1)
        if (setting != null) {
            result[setting.key] = setting
        }
    }
    return result
}

fun levelOf(name: String): Level = when (name.lowercase()) {
    "debug", "trace" -> Level.DEBUG
    "info" -> Level.INFO
    "warn", "warning" -> Level.WARN
    else -> Level.ERROR
}

fun <T> firstOrDefault(items: List<T>, default: T, predicate: (T) -> Boolean): T {
    for (item in items) {
        if (predicate(item)) return item
    }
    return default
}

fun main() {
    val lines = listOf(
        "# commentaire",
        "name = héllo wörld",
        "lang = 日本語",
        "mood = 😀",
        "level = warn",
        ""
    )

    square(1)
    square(2)
    square(square(3))
    add(square(1), square(square(2)))
    add(add(1, 2), add(3, add(4, 5)))

    val settings = try {
        parseAll(lines)
    } catch (e: ParseException) {
        println("erreur ligne " + e.line + ": " + e.message)
        emptyMap<String, Setting>()
    }

    val level = levelOf(settings["level"]?.value ?: "info")
    val loud = firstOrDefault(Defaults.levels, Level.ERROR) { it.ordinal >= level.ordinal }
    val lengths = settings.values.map { s -> add(s.key.length, s.value.length) }

    var n = 0
    do {
        n += square(2)
    } while (n < 10)

    settings.forEach { (key, setting) ->
        println(key + " -> " + setting.value + " @" + setting.line)
    }
    println(listOf(level, loud, lengths.sum(), n, Defaults.LONG_TEXT.length))
}
