-- a.hs - shapes and list utilities
{-
  Block comment: héllo wörld, 日本語, 😀
-}
module Main where

import Data.List (sortBy, foldl')
import qualified Data.Map as Map

data Shape
  = Circle Double
  | Rect Double Double
  | Triangle Double Double Double
  deriving (Show, Eq)

data Person = Person
  { personName :: String
  , personAge :: Int
  } deriving (Show)

class Describable a where
  describe :: a -> String

instance Describable Shape where
  describe (Circle _) = "cercle"
  describe (Rect _ _) = "rectangle"
  describe _ = "autre forme"

-- foo doubles and adds one
foo :: Int -> Int
foo x = x * 2 + 1

bar :: Int -> Int -> Int
bar a b = a - b

area :: Shape -> Double
area (Circle r) = pi * r * r
area (Rect w h) = w * h
area (Triangle a b c) =
  let s = (a + b + c) / 2
   in sqrt (s * (s - a) * (s - b) * (s - c))

classify :: Int -> String
classify n
  | n < 0 = "négatif"
  | n == 0 = "zéro"
  | n > 100 = "grand 😀"
  | otherwise = "positif"

total :: [Shape] -> Double
total shapes = foldl' (\acc s -> acc + area s) 0 shapes

oldest :: [Person] -> Maybe Person
oldest [] = Nothing
oldest ps = Just (head (sortBy cmp ps))
  where
    cmp p q = compare (personAge q) (personAge p)

ages :: Map.Map String Int
ages =
  Map.fromList
    [ ("zoë", 31)
    , ("rené", 45)
    , ("太郎", 28)
    ]

main :: IO ()
main = do
  let shapes = [Circle 1.5, Rect 2 3.5, Triangle 3 4 5]
      people =
        [ Person "Zoë" 31
        , Person "René" 45
        ]
      numbers = [1, 2, 3, 5, 8, 13] :: [Int]
  print (foo 1)
  print (foo 2)
  print (foo (foo 1))
  print (bar (foo 1) (foo (foo 2)))
  print (bar (bar 1 2) (bar 3 4))
  putStrLn "héllo wörld 😀" -- trailing comment
  putStrLn (classify (foo 3))
  if total shapes > 10 && length people == 2
    then putStrLn (concatMap describe shapes)
    else putStrLn "petit"
  case oldest people of
    Just p -> putStrLn (personName p)
    Nothing -> putStrLn "personne"
  print (map (\n -> n * n) (filter even numbers))
  print (Map.lookup "太郎" ages)
