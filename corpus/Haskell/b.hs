{- b.hs - a small expression evaluator -}
-- Remarque: évaluateur d'expressions, 式の評価
module Eval
  ( Expr (..)
  , eval
  , simplify
  , render
  ) where

import Data.Maybe (fromMaybe)

data Expr
  = Num Int
  | Var String
  | Add Expr Expr
  | Mul Expr Expr
  | Neg Expr
  deriving (Eq, Show)

type Env = [(String, Int)]

longText :: String
longText = "Lorem ipsum dolor sit amet, consectetur adipiscing elit, sed do eiusmod tempor incididunt ut labore et dolore magna aliqua, ut enim ad minim veniam, quis nostrud exercitation ullamco laboris nisi ut aliquip ex ea commodo consequat, fin de la línea"

square :: Int -> Int
square x = x * x

add :: Int -> Int -> Int
add a b = a + b

-- evaluate with an environment; unknown variables count as zero
eval :: Env -> Expr -> Int
eval _ (Num n) = n
eval env (Var v) = fromMaybe 0 (lookup v env)
eval env (Add l r) = add (eval env l) (eval env r)
eval env (Mul l r) = eval env l * eval env r
eval env (Neg e) = negate (eval env e)

simplify :: Expr -> Expr
simplify (Add (Num 0) e) = simplify e
simplify (Add e (Num 0)) = simplify e
simplify (Mul (Num 1) e) = simplify e
simplify (Mul e (Num 1)) = simplify e
simplify (Mul (Num 0) _) = Num 0 -- annihilator
simplify (Neg (Neg e)) = simplify e
simplify (Add l r) = Add (simplify l) (simplify r)
simplify (Mul l r) = Mul (simplify l) (simplify r)
simplify e = e

render :: Expr -> String
render expr =
  case expr of
    Num n
      | n < 0 -> "(" ++ show n ++ ")"
      | otherwise -> show n
    Var v -> v
    Add l r -> render l ++ " + " ++ render r
    Mul l r -> render l ++ " × " ++ render r
    Neg e -> "-" ++ render e

depth :: Expr -> Int
depth (Add l r) = 1 + max (depth l) (depth r)
depth (Mul l r) = 1 + max (depth l) (depth r)
depth (Neg e) = 1 + depth e
depth _ = 0

sample :: Expr
sample =
  Add
    (Mul (Num 2) (Var "x"))
    (Neg
       (Add
          (Num 0)
          (Var "y")))

demo :: IO ()
demo = do
  let env = [("x", 5), ("y", 3), ("変数", 7)]
      labels = ["héllo wörld", "日本語", "😀"]
  print (square 1)
  print (square 2)
  print (square (square 3))
  print (add (square 1) (square (square 2)))
  print (add (add 1 2) (add 3 (add 4 5)))
  putStrLn (render (simplify sample))
  print (eval env sample, depth sample)
  mapM_ putStrLn labels
  print [x * y | x <- [1 .. 3], y <- [x .. 3], odd (x + y)]
  if length longText > 200 then putStrLn "long" else putStrLn "court"
