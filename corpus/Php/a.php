<?php
// a.php - product catalogue
/*
 * Block comment: héllo wörld, 日本語, 😀
 */
declare(strict_types=1);

namespace Corpus\Shop;

interface Priced
{
    public function price(): float;
}

class Product implements Priced
{
    private string $name;
    private float $price;
    private array $tags = [];

    public function __construct(string $name, float $price, array $tags = [])
    {
        $this->name = $name;
        $this->price = $price;
        $this->tags = $tags;
    }

    public function name(): string
    {
        return $this->name;
    }

    public function price(): float
    {
        return $this->price; // prix hors taxes
    }

    public function hasTag(string $tag): bool
    {
        return in_array($tag, $this->tags, true);
    }
}

function foo(int $x): int
{
    return $x * 2 + 1;
}

function bar(int $a, int $b): int
{
    return $a - $b;
}

# total applies a tax rate to the sum of prices
function total(array $products, float $rate = 0.2): float
{
    $sum = 0.0;
    foreach ($products as $product) {
        if ($product->price() > 0 && !$product->hasTag('gratuit')) {
            $sum += $product->price();
        } else {
            /* free product, nothing to add */
        }
    }
    return round($sum * (1 + $rate), 2);
}

$products = [
    new Product('thé vert', 4.5, ['boisson', 'bio']),
    new Product('お茶', 12.0, ['boisson']),
    new Product(
        'échantillon',
        0.0,
        ['gratuit']
    ),
];

$labels = [
    'greeting' => 'héllo wörld',
    'lang' => '日本語',
    'mood' => '😀',
    'nested' => ['a' => 1, 'b' => [2, 3]],
];

foo(1);
foo(2);
foo(foo(1));
bar(foo(1), foo(foo(2)));
bar(bar(1, 2), bar(3, 4));
echo foo(3), "\n";
echo bar(4, 5), "\n";
echo $labels['greeting'] . ' ' . $labels['mood'] . "\n";

$names = array_map(
    function (Product $p) {
        return strtoupper($p->name());
    },
    $products
);
$cheap = array_filter($products, fn($p) => $p->price() < 10.0);

for ($i = 0; $i < count($names); $i++) {
    echo $i . ': ' . $names[$i] . "\n";
}

$i = 0;
while ($i < 3) {
    $i++;
}

printf("%.2f %d %d\n", total($products), count($cheap), $i);
