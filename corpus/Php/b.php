<?php
/* b.php - request routing and a tiny template renderer */
// Remarque: routeur de requêtes, ルーター

namespace Corpus\Web;

use InvalidArgumentException;

const LONG_TEXT = "Lorem ipsum dolor sit amet, consectetur adipiscing elit, sed do eiusmod tempor incididunt ut labore et dolore magna aliqua, ut enim ad minim veniam, quis nostrud exercitation ullamco laboris nisi ut aliquip ex ea commodo consequat, fin de la línea";

abstract class Handler
{
    abstract public function handle(array $params): string;

    protected function escape(string $text): string
    {
	return htmlspecialchars($text, ENT_QUOTES, 'UTF-8'); // tab-indented line
    }
}

final class HelloHandler extends Handler
{
    public function handle(array $params): string
    {
        $name = $params['name'] ?? 'wörld';
        return 'héllo ' . $this->escape($name) . ' 😀';
    }
}

class Router
{
    /** @var array<string, Handler> */
    private array $routes = [];
    private static int $created = 0;

    public function __construct()
    {
        self::$created++;
    }

    public function add(string $path, Handler $handler): self
    {
        $this->routes[$path] = $handler;
        return $this;
    }

    public function dispatch(string $path, array $params = []): string
    {
        if (!isset($this->routes[$path])) {
            throw new InvalidArgumentException('route inconnue: ' . $path);
        }
        return $this->routes[$path]->handle($params);
    }

    public static function created(): int
    {
        return self::$created;
    }
}

function square(int $x): int
{
    return $x * $x;
}

function add(int $a, int $b): int
{
    return $a + $b;
}

function status(int $code): string
{
    switch ($code) {
        case 200:
            return 'OK';
        case 404:
            return 'introuvable';
        default:
            return $code >= 500 ? 'erreur serveur' : '不明';
    }
}

square(1);
square(2);
square(square(3));
add(square(1), square(square(2)));
add(add(1, 2), add(3, add(4, 5)));

$router = (new Router())
    ->add('/hello', new HelloHandler())
    ->add('/bonjour', new HelloHandler());

$requests = [
    ['/hello', ['name' => 'Zoë']],
    ['/bonjour', ['name' => '太郎']],
    ['/missing', []],
];

foreach ($requests as [$path, $params]) {
    try {
        echo $router->dispatch($path, $params), "\n";
    } catch (InvalidArgumentException $e) {
        echo status(404) . ': ' . $e->getMessage() . "\n";
    } finally {
        $seen[] = $path;
    }
}

$matrix = [[1, 2], [3, 4], [5, [6, 7]]];
$double = fn(int $v): int => add($v, $v);
do {
    $matrix[0][0] = $double($matrix[0][0]);
} while ($matrix[0][0] < 10);

echo implode(', ', $seen), ' ', Router::created(), ' ', strlen(LONG_TEXT), ' ', status(503), "\n";
