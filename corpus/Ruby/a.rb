# a.rb - recipe book
=begin
Block comment: héllo wörld, 日本語, 😀
=end

require "set"

module Corpus
  DEFAULT_SERVINGS = 4
  UNITS = { gram: "g", litre: "l", piece: "pc" }.freeze

  class Ingredient
    attr_reader :name, :amount, :unit

    def initialize(name, amount, unit = :gram)
      @name = name
      @amount = amount
      @unit = unit
    end

    def to_s
      format("%s: %.1f%s", name, amount, UNITS[unit])
    end
  end

  class Recipe
    attr_reader :title, :ingredients

    def initialize(title, servings = DEFAULT_SERVINGS)
      @title = title
      @servings = servings
      @ingredients = []
      @tags = Set.new
    end

    def add(name, amount, unit = :gram)
      @ingredients << Ingredient.new(name, amount, unit)
      self  # allow chaining
    end

    def scale(factor)
      @ingredients.map do |ing|
        Ingredient.new(ing.name, ing.amount * factor, ing.unit)
      end
    end

    def heavy?
      @ingredients.any? { |ing| ing.amount > 500 && ing.unit == :gram }
    end
  end
end

def foo(x)
  x * 2 + 1
end

def bar(a, b)
  a - b
end

recipe = Corpus::Recipe.new("Crème brûlée")
recipe
  .add("crème", 500.0, :gram)
  .add("œufs", 6, :piece)
  .add(
    "砂糖",
    120.5
  )

foo(1)
foo(2)
foo(foo(1))
bar(foo(1), foo(foo(2)))
bar(bar(1, 2), bar(3, 4))
puts(foo(3))
puts(foo(3), bar(4, 5))
puts("héllo wörld 😀")

numbers = [1, 2, 3, 5, 8, 13]
squares = numbers.select(&:odd?).map { |n| n * n }
labels = {
  "un" => 1,
  "deux" => 2,
  "三" => [3, [4, 5]],
}

recipe.scale(0.5).each_with_index do |ing, index|
  if index.even? && ing.amount > 1
    puts ing.to_s
  elsif ing.unit == :piece
    puts "#{ing.name} (pièces)"
  else
    puts "…"
  end
end

i = 0
while i < 3
  i += 1
end

twice = ->(f, x) { f.call(f.call(x)) }
puts twice.call(->(v) { v * 3 }, 7)
puts [squares.sum, labels.size, recipe.heavy? ? "lourd" : "léger", i].inspect
