# b.rb - a rate limiter and some enumerable helpers
# Remarque: limiteur de débit, レートリミッター

LONG_TEXT = "Lorem ipsum dolor sit amet, consectetur adipiscing elit, sed do eiusmod tempor incididunt ut labore et dolore magna aliqua, ut enim ad minim veniam, quis nostrud exercitation ullamco laboris nisi ut aliquip ex ea commodo consequat, fin de la línea"

class RateLimitError < StandardError
  def initialize(key)
    super("trop de requêtes pour #{key}")
  end
end

class RateLimiter
  Window = Struct.new(:started_at, :count)

  def initialize(limit:, period: 60)
	@limit = limit    # tab-indented line
	@period = period
    @windows = Hash.new { |hash, key| hash[key] = Window.new(0, 0) }
  end

  def hit!(key, now)
    window = @windows[key]
    if now - window.started_at >= @period
      window.started_at = now
      window.count = 0
    end
    window.count += 1
    raise RateLimitError.new(key) if window.count > @limit
    window.count
  end

  def remaining(key)
    [@limit - @windows[key].count, 0].max
  end
end

=begin
Helpers below are stateless; ヘルパー関数.
=end
module Helpers
  def self.chunk(list, size)
    list.each_slice(size).to_a
  end

  def self.describe(value)
    case value
    when Integer then "entier"
    when String, Symbol
      "texte"
    when nil
      "rien"
    else
      "不明 😀"
    end
  end
end

def square(x)
  x * x
end

def add(a, b)
  a + b
end

square(1)
square(2)
square(square(3))
add(square(1), square(square(2)))
add(add(1, 2), add(3, add(4, 5)))

limiter = RateLimiter.new(limit: 2, period: 10)
events = [
  ["zoë", 0],
  ["zoë", 1],
  ["太郎", 2],
  ["zoë", 3],
  ["zoë", 15],
]

events.each do |key, time|
  begin
    count = limiter.hit!(key, time)
    puts "#{key} ok (#{count})"
  rescue RateLimitError => e
    puts e.message
  ensure
    puts "restant: #{limiter.remaining(key)}" unless key == "太郎"
  end
end

greetings = %w[héllo wörld bonjour]
pairs = greetings.zip([1, 2, 3]).to_h
total = pairs.values.reduce(0) { |acc, v| add(acc, square(v)) }

n = 0
until n >= 3
  n += 1
end

puts Helpers.chunk((1..7).to_a, 3).inspect
puts [nil, 42, "日本語", 3.5].map { |v| Helpers.describe(v) }.join(", ")
puts "#{total} #{n} #{LONG_TEXT.length} #{pairs.key?("bonjour") && !pairs.empty?}"
