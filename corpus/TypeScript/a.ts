// a.ts - a typed event bus and a small state machine
/*
 * Block comment: héllo wörld, 日本語, 😀
 */

type State = "idle" | "loading" | "ready" | "failed";

interface Transition {
  from: State;
  to: State;
  label?: string;
}

interface Listener<T> {
  (payload: T): void;
}

const TRANSITIONS: Transition[] = [
  { from: "idle", to: "loading", label: "démarrer" },
  { from: "loading", to: "ready", label: "完了" },
  { from: "loading", to: "failed" },
  {
    from: "failed",
    to: "idle",
    label: "réessayer 😀",
  },
];

function foo(x: number): number {
  return x * 2 + 1;
}

function bar(a: number, b: number): number {
  return a - b;
}

class EventBus<Events extends Record<string, unknown>> {
  private listeners: { [K in keyof Events]?: Listener<Events[K]>[] } = {};

  on<K extends keyof Events>(name: K, listener: Listener<Events[K]>): this {
    const list = this.listeners[name] ?? [];
    list.push(listener);
    this.listeners[name] = list;
    return this; // allow chaining
  }

  emit<K extends keyof Events>(name: K, payload: Events[K]): number {
    const list = this.listeners[name] ?? [];
    list.forEach((l) => l(payload));
    return list.length;
  }
}

class Machine {
  private state: State = "idle";
  public readonly history: State[] = [];

  constructor(private readonly bus: EventBus<{ change: State; error: string }>) {}

  get current(): State {
    return this.state;
  }

  go(to: State): boolean {
    const allowed = TRANSITIONS.some(
      (t) => t.from === this.state && t.to === to
    );
    if (!allowed) {
      this.bus.emit("error", "transition interdite: " + this.state + " -> " + to);
      return false;
    }
    this.history.push(this.state);
    this.state = to;
    this.bus.emit("change", to);
    return true;
  }
}

const bus = new EventBus<{ change: State; error: string }>();
const log: string[] = [];
bus
  .on("change", (s) => log.push("état: " + s))
  .on("error", (message) => log.push(message));

foo(1);
foo(2);
foo(foo(1));
bar(foo(1), foo(foo(2)));
bar(bar(1, 2), bar(3, 4));
console.log(foo(3));
console.log(foo(3), bar(4, 5));
console.log("héllo wörld 😀");

const machine = new Machine(bus);
const plan: State[] = ["loading", "ready", "idle", "loading"];
let i = 0;
while (i < plan.length) {
  if (!machine.go(plan[i]) && machine.current !== "idle") {
    machine.go("failed");
  } else {
    /* keep going */
  }
  i += 1;
}

const counts: Record<string, number> = {};
for (const s of machine.history) {
  counts[s] = (counts[s] || 0) + 1;
}
console.log(log, counts, machine.current as string);
export { EventBus, Machine, foo, bar };

// dangling commas before a closer
foo(alpha, beta, gamma,);
const trailing = [one, two, three,];
bar({ k: 1, l: 2, }, [p, q,],);
