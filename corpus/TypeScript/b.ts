/* b.ts - result types, generics and an in-memory repository */
// Remarque: dépôt en mémoire, インメモリリポジトリ

const LONG_TEXT: string = "Lorem ipsum dolor sit amet, consectetur adipiscing elit, sed do eiusmod tempor incididunt ut labore et dolore magna aliqua, ut enim ad minim veniam, quis nostrud exercitation ullamco laboris nisi ut aliquip ex ea commodo consequat, fin de la línea";

export type Result<T, E = Error> =
  | { ok: true; value: T }
  | { ok: false; error: E };

export interface Entity {
  readonly id: number;
}

export interface User extends Entity {
  name: string;
  email?: string;
  roles: ReadonlyArray<Role>;
}

export enum Role {
  Admin = "admin",
  Editor = "editor",
  Guest = "guest",
}

abstract class Repository<T extends Entity> {
  protected items = new Map<number, T>();

  abstract validate(item: T): Result<T, string>;

  save(item: T): Result<T, string> {
	const checked = this.validate(item); // tab-indented line
    if (checked.ok) {
      this.items.set(item.id, item);
    }
    return checked;
  }

  find(predicate: (item: T) => boolean): T | undefined {
    for (const item of this.items.values()) {
      if (predicate(item)) {
        return item;
      }
    }
    return undefined;
  }

  get size(): number {
    return this.items.size;
  }
}

class UserRepository extends Repository<User> {
  validate(user: User): Result<User, string> {
    if (user.name.trim().length === 0) {
      return { ok: false, error: "nom vide" };
    }
    if (user.email !== undefined && !user.email.includes("@")) {
      return { ok: false, error: "courriel invalide: " + user.email };
    }
    return { ok: true, value: user };
  }
}

function square(x: number): number {
  return x * x;
}

function add(a: number, b: number): number {
  return a + b;
}

function isAdmin(user: User): user is User & { roles: [Role.Admin] } {
  return user.roles.indexOf(Role.Admin) >= 0;
}

function unwrap<T>(result: Result<T, string>, fallback: T): T {
  return result.ok ? result.value : fallback;
}

square(1);
square(2);
square(square(3));
add(square(1), square(square(2)));
add(add(1, 2), add(3, add(4, 5)));

const repo = new UserRepository();
const candidates: User[] = [
  { id: 1, name: "Zoë", email: "zoe@example.com", roles: [Role.Admin, Role.Editor] },
  { id: 2, name: "太郎", roles: [Role.Guest] },
  { id: 3, name: "  ", roles: [] },
  {
    id: 4,
    name: "René",
    email: "pas-un-courriel",
    roles: [Role.Editor],
  },
];

const errors: string[] = [];
for (const candidate of candidates) {
  const saved = repo.save(candidate);
  if (!saved.ok) {
    errors.push(saved.error);
  }
}

const admin = repo.find(isAdmin);
const guest = unwrap<User>(repo.save(candidates[1]), candidates[0]);
const summary: [number, string[], string | undefined] = [repo.size, errors, admin?.name];

declare const process: { env: Record<string, string | undefined> } | undefined;
const verbose = typeof process !== "undefined" && process!.env["VERBOSE"] === "1";

if (verbose || summary[0] > 1) {
  console.log(summary, guest.name, "héllo wörld 😀", LONG_TEXT.length);
}
