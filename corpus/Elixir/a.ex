# a.ex - shopping cart module
# Commentaire: héllo wörld, 日本語, 😀
defmodule Corpus.Cart do
  @moduledoc """
  A tiny shopping cart. Le panier d'achats, ショッピングカート.
  """

  defstruct items: [], coupon: nil, owner: "anonyme"

  @tax_rate 0.2
  @free_shipping_limit 50

  # foo doubles and adds one
  def foo(x), do: x * 2 + 1

  def bar(a, b) do
    a - b
  end

  def new(owner) do
    %__MODULE__{owner: owner}
  end

  def add(%__MODULE__{items: items} = cart, name, price, qty \\ 1) do
    item = %{name: name, price: price, qty: qty}
    %{cart | items: [item | items]}
  end

  def subtotal(cart) do
    cart.items
    |> Enum.map(fn item -> item.price * item.qty end)
    |> Enum.sum()
  end

  def total(cart) do
    base = subtotal(cart)
    taxed = base * (1 + @tax_rate)

    cond do
      base == 0 ->
        0

      base > @free_shipping_limit and cart.coupon != nil ->
        taxed * 0.9  # coupon applies

      true ->
        taxed + 4.99
    end
  end

  def describe(cart) do
    case length(cart.items) do
      0 -> "vide"
      1 -> "un article"
      n when n > 10 -> "beaucoup 😀"
      _ -> "quelques articles"
    end
  end

  def demo do
    cart =
      new("Zoë")
      |> add("thé vert", 4.5, 2)
      |> add("お茶", 12.0)
      |> add(
        "crème",
        3.25,
        4
      )

    foo(1)
    foo(2)
    foo(foo(1))
    bar(foo(1), foo(foo(2)))
    bar(bar(1, 2), bar(3, 4))
    IO.puts(foo(3))
    IO.puts("héllo wörld 😀")
    IO.inspect(bar(4, 5))

    prices = %{"thé" => 4.5, "café" => 3.0, "水" => 1.0}
    numbers = [1, 2, 3, 5, 8, 13]

    evens =
      for n <- numbers, rem(n, 2) == 0 do
        n * n
      end

    if total(cart) > 30 and map_size(prices) == 3 do
      IO.inspect({:big, describe(cart), evens})
    else
      IO.inspect({:small, describe(cart)})
    end
  end
end
