# b.ex - text statistics and a recursive tree walker
defmodule Corpus.TextStats do
  @moduledoc false

  # Remarque: les chaînes contiennent du texte non ASCII (文字列)
  @stop_words ["le", "la", "les", "the", "a", "の"]

  @long_text "Lorem ipsum dolor sit amet, consectetur adipiscing elit, sed do eiusmod tempor incididunt ut labore et dolore magna aliqua, ut enim ad minim veniam, quis nostrud exercitation ullamco laboris nisi ut aliquip ex ea commodo consequat, fin de la línea"

  def square(x), do: x * x

  def add(a, b), do: a + b

  def words(text) do
	String.split(text, ~r/\s+/, trim: true)  # tab-indented line
  end

  def frequencies(text) do
    text
    |> String.downcase()
    |> words()
    |> Enum.reject(fn w -> w in @stop_words end)
    |> Enum.reduce(%{}, fn w, acc ->
      Map.update(acc, w, 1, &(&1 + 1))
    end)
  end

  def top(text, n \\ 3) do
    text
    |> frequencies()
    |> Enum.sort_by(fn {_word, count} -> -count end)
    |> Enum.take(n)
  end

  # depth of a nested tuple tree: {:node, left, right} or :leaf
  def depth(:leaf), do: 0

  def depth({:node, left, right}) do
    1 + max(depth(left), depth(right))
  end

  def classify(n) when is_integer(n) and n < 0, do: :negative
  def classify(0), do: :zero
  def classify(n) when is_integer(n), do: :positive
  def classify(_other), do: :unknown

  def safe_div(a, b) do
    try do
      {:ok, div(a, b)}
    rescue
      ArithmeticError -> {:error, "division par zéro"}
    end
  end

  def run do
    tree =
      {:node,
       {:node, :leaf, :leaf},
       {:node,
        {:node, :leaf, :leaf},
        :leaf}}

    square(1)
    square(2)
    square(square(3))
    add(square(1), square(square(2)))
    add(add(1, 2), add(3, add(4, 5)))

    config = [
      name: "héllo wörld",
      lang: "日本語",
      mood: "😀",
      retries: 3
    ]

    results =
      Enum.map([-2, 0, 7, "x"], fn v ->
        {v, classify(v)}
      end)

    with {:ok, q} <- safe_div(10, 2),
         {:ok, r} <- safe_div(q, 1) do
      IO.inspect({q, r, depth(tree)})
    else
      {:error, reason} -> IO.puts(reason)
    end

    unless Keyword.get(config, :retries) > 5 do
      IO.inspect(top(@long_text, 5))
    end

    IO.inspect(results)
    String.length(@long_text)
  end
end
