#!/usr/bin/env bash
# a.sh - deployment helper; prints "héllo wörld" along the way
set -euo pipefail

APP_NAME="démo-app"
VERSION="1.4.2"
RETRIES=3
TARGETS=(alpha beta gamma "日本語-host")

# log writes a tagged message to stderr
log() {
    local level="$1"
    shift
    echo "[${level}] $*" >&2   # trailing comment 😀
}

foo() {
    echo "foo:$*"
}

bar() {
    echo "bar:$1"
}

# build_url joins host, port and path
build_url() {
    local host="$1" port="$2" path="${3:-/}"
    printf 'http://%s:%d%s\n' \
        "$host" \
        "$port" \
        "$path"
}

port_for() {
    case "$1" in
        alpha) echo 8080 ;;
        beta)  echo 8081 ;;
        gamma | delta)
            echo 9090
            ;;
        *)
            echo 80   # default port
            ;;
    esac
}

check_target() {
    local name="$1"
    local port
    port="$(port_for "$name")"
    if [[ "$port" -gt 9000 && "$name" != "alpha" ]]; then
        log WARN "high port for $name: $port"
    elif [[ -z "$name" ]]; then
        log ERROR "empty name"
        return 1
    else
        log INFO "ok $(build_url "$name" "$port" "/health")"
    fi
}

foo 1
foo 2 3
foo "$(foo 1)"
bar "$(foo "$(foo 1)")"
bar "$(foo 2 3)"
echo "$(foo 1)" "$(bar 2)"

for t in "${TARGETS[@]}"; do
    check_target "$t" || log ERROR "failed: $t"
done

i=0
total=0
while [ "$i" -lt "$RETRIES" ]; do
    total=$(( total + i * 2 ))
    i=$(( i + 1 ))
done
log INFO "total=$total name=$APP_NAME version=$VERSION"

: <<'BLOCK'
This here-document acts as a block comment.
It may contain anything: 日本語, émoji 😀, unbalanced ( brackets.
BLOCK

find_logs() {
    find "${1:-.}" -name '*.log' -print |
        sort |
        head -n 5
}

find_logs /tmp > /dev/null 2>&1 || true
exit 0
