#!/bin/bash
# b.sh - backup rotation script (sauvegarde journalière)

BACKUP_DIR="/var/backups/demo"
KEEP=7
declare -a FILES=(
    "notes.txt"
    "résumé.pdf"
    "写真.png"
)
GREETING='héllo wörld 😀'

say() {
	echo "say: $1"   # tab-indented body
}

wrap() {
	echo "<$1>"
}

checksum() {
    local file="$1"
    if [ -f "$file" ]; then
        sha256sum "$file" | cut -d ' ' -f 1
    else
        echo "missing"
    fi
}

rotate() {
    local dir="$1" keep="$2"
    local count=0
    for f in "$dir"/*.tar.gz; do
        count=$((count + 1))
        if [ "$count" -gt "$keep" ]; then
            echo "would remove $f"   # dry run only
        fi
    done
    return 0
}

say 1
say 2
say "$(wrap 1)"
say "$(wrap "$(wrap 2)")"
wrap "$(say "$(say 3)")"
wrap "$(wrap "$(wrap "$(wrap deep)")")"

LONG_MESSAGE="Lorem ipsum dolor sit amet, consectetur adipiscing elit, sed do eiusmod tempor incididunt ut labore et dolore magna aliqua, ut enim ad minim veniam, quis nostrud exercitation ullamco laboris nisi ut aliquip ex ea commodo consequat, fin de la línea"

# iterate over the files with a counter
n=0
for name in "${FILES[@]}"; do
    echo "$n: $name -> $(checksum "$BACKUP_DIR/$name")"
    n=$((n + 1))
done

archive() {
    tar -czf "$BACKUP_DIR/backup-$(date +%Y%m%d).tar.gz" \
        --exclude='*.tmp' \
        --exclude='cache/*' \
        "$@"
}

until [ "$KEEP" -le 5 ]; do
    KEEP=$((KEEP - 1))
done

if command -v tar > /dev/null && [ -d "$BACKUP_DIR" ]; then
    archive "${FILES[@]}"
    rotate "$BACKUP_DIR" "$KEEP"
else
    echo "nothing to do: $GREETING"
    echo "${#LONG_MESSAGE} characters in the long message"
fi

cat <<EOF
Report for $(hostname)
  kept:   $KEEP
  dir:    $BACKUP_DIR
EOF

status=$?
[ "$status" -eq 0 ] && echo "done" || echo "failed with $status"
