/* b.scala - a JSON-like value tree and a pretty printer */
// Remarque: arbre de valeurs, 値のツリー
package corpus.json

import scala.util.{Failure, Success, Try}

sealed abstract class Value
case object Null extends Value
case class Bool(value: Boolean) extends Value
case class Num(value: Double) extends Value
case class Str(value: String) extends Value
case class Arr(items: List[Value]) extends Value
case class Obj(fields: List[(String, Value)]) extends Value

object Printer {
  val LongText: String = "Lorem ipsum dolor sit amet, consectetur adipiscing elit, sed do eiusmod tempor incididunt ut labore et dolore magna aliqua, ut enim ad minim veniam, quis nostrud exercitation ullamco laboris nisi ut aliquip ex ea commodo consequat, fin de la línea"

  def square(x: Int): Int = x * x

  def add(a: Int, b: Int): Int = a + b

  def quote(s: String): String = {
	"\"" + s.replace("\"", "\\\"") + "\"" // tab-indented line
  }

  def render(v: Value, indent: Int = 0): String = {
    val pad = " " * indent
    v match {
      case Null => "null"
      case Bool(b) => b.toString
      case Num(n) if n == n.toLong => n.toLong.toString
      case Num(n) => n.toString
      case Str(s) => quote(s)
      case Arr(Nil) => "[]"
      case Arr(items) =>
        items
          .map(item => pad + "  " + render(item, indent + 2))
          .mkString("[\n", ",\n", "\n" + pad + "]")
      case Obj(fields) =>
        fields
          .map { case (k, value) => pad + "  " + quote(k) + ": " + render(value, indent + 2) }
          .mkString("{\n", ",\n", "\n" + pad + "}")
    }
  }

  def depth(v: Value): Int = v match {
    case Arr(items) => 1 + items.map(depth).foldLeft(0)(math.max)
    case Obj(fields) => 1 + fields.map(f => depth(f._2)).foldLeft(0)(math.max)
    case _ => 0
  }

  def parseNumber(text: String): Value = Try(text.trim.toDouble) match {
    case Success(n) => Num(n)
    case Failure(_) => Str(text)
  }
}

object Demo extends App {
  import Printer._

  val doc = Obj(
    List(
      "greeting" -> Str("héllo wörld"),
      "lang" -> Str("日本語"),
      "mood" -> Str("😀"),
      "numbers" -> Arr(List(Num(1), Num(2.5), parseNumber("42"), parseNumber("n/a"))),
      "nested" -> Obj(
        List(
          "ok" -> Bool(true),
          "none" -> Null,
          "deep" -> Arr(List(Arr(List(Arr(Nil)))))
        )
      )
    )
  )

  square(1)
  square(2)
  square(square(3))
  add(square(1), square(square(2)))
  add(add(1, 2), add(3, add(4, 5)))

  val lengths = doc.fields.map { case (k, _) => add(k.length, 1) }
  var total = 0
  for (n <- lengths if n > 4) {
    total += square(n)
  }

  val label = if (depth(doc) > 3 && total > 0) "profond" else "plat"

  try {
    println(render(doc))
    println(List(label, total, LongText.length, lengths.max).mkString(" | "))
  } catch {
    case e: UnsupportedOperationException => println("vide: " + e.getMessage)
  } finally {
    println("terminé")
  }
}
