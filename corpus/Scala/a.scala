// a.scala - employees and departments
/*
 * Block comment: héllo wörld, 日本語, 😀
 */
package corpus.company

import scala.collection.mutable

sealed trait Role
case object Engineer extends Role
case object Manager extends Role
case class Contractor(agency: String) extends Role

case class Employee(name: String, role: Role, salary: Double, age: Int = 30)

trait Describable {
  def describe: String
}

class Department(val title: String) extends Describable {
  private val members = mutable.ListBuffer[Employee]()

  def hire(e: Employee): Department = {
    members += e
    this // allow chaining
  }

  def payroll: Double = members.map(_.salary).sum

  def byRole: Map[String, List[String]] = {
    members.toList
      .groupBy(e => roleName(e.role))
      .map { case (role, es) => (role, es.map(_.name).sorted) }
  }

  def roleName(role: Role): String = role match {
    case Engineer => "ingénieur"
    case Manager => "responsable"
    case Contractor(agency) if agency.nonEmpty => "externe (" + agency + ")"
    case Contractor(_) => "externe"
  }

  override def describe: String = title + ": " + members.size + " personnes"
}

object Main {
  def foo(x: Int): Int = x * 2 + 1

  def bar(a: Int, b: Int): Int = {
    a - b
  }

  def twice(f: Int => Int, x: Int): Int = f(f(x))

  def main(args: Array[String]): Unit = {
    val dept = new Department("Recherche")
    dept
      .hire(Employee("Zoë", Engineer, 5200.0))
      .hire(Employee("René", Manager, 6100.5, 45))
      .hire(
        Employee(
          "太郎",
          Contractor("派遣会社"),
          4000.0
        )
      )

    foo(1)
    foo(2)
    foo(foo(1))
    bar(foo(1), foo(foo(2)))
    bar(bar(1, 2), bar(3, 4))
    println(foo(3))
    println(bar(4, 5))
    println("héllo wörld 😀")

    val numbers = List(1, 2, 3, 5, 8, 13)
    val labels = Map("un" -> 1, "deux" -> 2, "三" -> 3)
    val squares = numbers.filter(_ % 2 == 1).map(n => n * n)

    val pairs = for {
      x <- numbers
      y <- numbers
      if x < y && (x + y) % 5 == 0
    } yield (x, y)

    var i = 0
    while (i < 3) {
      if (i % 2 == 0 && dept.payroll > 1000) {
        println(dept.describe)
      } else {
        /* nothing on odd rounds */
      }
      i += 1
    }
    println(dept.byRole)
    println((squares.sum, labels.size, pairs.length, twice(v => v * 3, 7)))
  }
}
