// b.c - string buffer helpers and a tiny tokenizer
// Commentaire en français: chaîne de caractères, 文字列
#include <ctype.h>
#include <stdio.h>
#include <string.h>

#define BUF_SIZE 256

enum Kind { KIND_WORD, KIND_NUMBER, KIND_OTHER };

typedef struct Buffer {
    char data[BUF_SIZE];
    size_t len;
} Buffer;

typedef int (*Predicate)(int);

static const char *LONG_TEXT = "Lorem ipsum dolor sit amet, consectetur adipiscing elit, sed do eiusmod tempor incididunt ut labore et dolore magna aliqua, ut enim ad minim veniam, quis nostrud exercitation ullamco laboris nisi ut aliquip ex ea commodo consequat, fin de la línea";

static const char *WORDS[] = {
    "alpha",
    "béta",
    "日本語",
    "😀",
};

static void buf_init(Buffer *b) {
	b->len = 0;          /* tab-indented line */
	b->data[0] = '\0';
}

static int buf_append(Buffer *b, const char *s) {
    size_t n = strlen(s);
    if (b->len + n + 1 > BUF_SIZE) {
        return -1;  // would overflow
    }
    memcpy(b->data + b->len, s, n + 1);
    b->len += n;
    return 0;
}

static size_t count_if(const char *s, Predicate pred) {
    size_t count = 0;
    for (size_t i = 0; s[i] != '\0'; i++) {
        if (pred((unsigned char)s[i])) {
            count++;
        }
    }
    return count;
}

static enum Kind classify(const char *s) {
    if (count_if(s, isdigit) == strlen(s)) {
        return KIND_NUMBER;
    } else if (count_if(s, isalpha) > 0) {
        return KIND_WORD;
    }
    return KIND_OTHER;
}

static int clamp(int v, int lo, int hi) {
    return v < lo ? lo : (v > hi ? hi : v);
}

static int twice(int v) {
    return v + v;
}

int main(void) {
    Buffer buf;
    buf_init(&buf);

    /* repeated calls, some nested */
    twice(1);
    twice(2);
    twice(twice(3));
    twice(twice(twice(4)));
    clamp(twice(5), 0, 8);
    clamp(clamp(12, 0, 10), twice(1), twice(twice(2)));

    for (size_t i = 0; i < sizeof(WORDS) / sizeof(WORDS[0]); i++) {
        if (buf_append(&buf, WORDS[i]) != 0 ||
            buf_append(&buf, i % 2 == 0 ? ", " : "; ") != 0) {
            fprintf(stderr, "buffer full at %zu\n", i);
            break;
        }
    }

    do {
        buf.len = buf.len > 0 ? buf.len - 1 : 0;
    } while (buf.len > 40);

    printf("%s | kind=%d | long=%zu\n",
           buf.data,
           classify("12345"),
           strlen(LONG_TEXT));
    printf("%d %d\n", clamp(-3, 0, 9), twice(0x1F));
    return 0;
}
