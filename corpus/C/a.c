/* a.c - simple vector and list utilities
 * Block comment with non-ASCII text: héllo wörld, 日本語
 */
#include <stdio.h>
#include <stdlib.h>
#include <string.h>

#define MAX_ITEMS 16
#define SQUARE(x) ((x) * (x))

typedef struct {
    double x;
    double y;
} Point;

struct Node {
    int value;
    struct Node *next;   /* singly linked */
};

static const char *GREETING = "héllo wörld 😀";  // trailing line comment
static int table[3][2] = {
    {1, 2},
    {3, 4},
    {5, 6},
};

// foo doubles and adds one
static int foo(int a) {
    return a * 2 + 1;
}

static int bar(int a, int b) {
    return a - b;
}

static double dot(Point p, Point q) {
    return p.x * q.x + p.y * q.y;
}

static struct Node *push(struct Node *head, int value) {
    struct Node *n = malloc(sizeof(struct Node));
    if (n == NULL) {
        return head;
    }
    n->value = value;
    n->next = head;
    return n;
}

static int sum_list(const struct Node *head) {
    int total = 0;
    for (const struct Node *p = head; p != NULL; p = p->next) {
        total += p->value;
    }
    return total;
}

int main(int argc, char **argv) {
    Point a = {1.0, 2.5};
    Point b = {.x = -3.0, .y = 0.25};
    struct Node *list = NULL;
    int i = 0;

    foo(1);
    foo(2);
    foo(foo(1));
    bar(foo(1), foo(foo(2)));
    bar(bar(1, 2), bar(3, 4));
    printf("%d %d\n", foo(3), bar(4, 5));
    printf("%s\n", GREETING);

    while (i < MAX_ITEMS) {
        if (i % 2 == 0 && i != 4) {
            list = push(list, SQUARE(i));
        } else if (i > 10) {
            list = push(list, -i);
        } else {
            /* skip odd small numbers */
        }
        i++;
    }

    printf(
        "dot=%f sum=%d cell=%d args=%d\n",
        dot(a, b),
        sum_list(list),
        table[2][1],
        argc
    );

    switch (argc) {
    case 1:
        puts("no arguments: 日本語");
        break;
    default:
        puts(argv[0]);
        break;
    }
    return 0;
}
