--[[ b.lua - string utilities and a memoizing cache ]]
-- Remarque: utilitaires de chaînes, 文字列ユーティリティ

local M = {}

local LONG_TEXT = "Lorem ipsum dolor sit amet, consectetur adipiscing elit, sed do eiusmod tempor incididunt ut labore et dolore magna aliqua, ut enim ad minim veniam, quis nostrud exercitation ullamco laboris nisi ut aliquip ex ea commodo consequat, fin de la línea"

local function square(x)
	return x * x -- tab-indented line
end

local function add(a, b)
	return a + b
end

function M.split(text, sep)
  local parts = {}
  local pattern = "([^" .. sep .. "]+)"
  for piece in string.gmatch(text, pattern) do
    parts[#parts + 1] = piece
  end
  return parts
end

function M.trim(text)
  local left = string.gsub(text, "^%s+", "")
  return string.reverse((string.gsub(string.reverse(left), "^%s+", "")))
end

function M.memoize(fn)
  local cache = {}
  return function(n)
    local hit = cache[n]
    if hit == nil then
      hit = fn(n)
      cache[n] = hit
    end
    return hit
  end
end

local fib
fib = M.memoize(function(n)
  if n < 2 then
    return n
  end
  return fib(n - 1) + fib(n - 2)
end)

function M.count_words(text)
  local counts = {}
  for _, word in ipairs(M.split(text, " ")) do
    local key = string.lower(M.trim(word))
    counts[key] = (counts[key] or 0) + 1
  end
  return counts
end

local Animal = {}
Animal.__index = Animal

function Animal.new(name, sound)
  local self = setmetatable({}, Animal)
  self.name = name
  self.sound = sound or "..."
  return self
end

function Animal:speak(times)
  local out = {}
  for _ = 1, times do
    out[#out + 1] = self.sound
  end
  return self.name .. ": " .. table.concat(out, " ")
end

square(1)
square(2)
square(square(3))
add(square(1), square(square(2)))
add(add(1, 2), add(3, add(4, 5)))

local animals = {
  Animal.new("chat", "miaou"),
  Animal.new("犬", "ワンワン"),
  Animal.new("poisson"),
}

for index, animal in ipairs(animals) do
  if index == 1 or animal.sound ~= "..." then
    print(animal:speak(add(index, 1)))
  else
    print(animal.name .. " est silencieux 😀")
  end
end

local counts = M.count_words("le chat et le chien et le poisson")
local matrix = { { 1, 2 }, { 3, 4 }, { 5, { 6, 7 } } }

goto done
print("never printed")
::done::

print(fib(20), counts["le"], #LONG_TEXT, matrix[3][2][1], 0xFF, 1e3, not (#animals > 3))

return M
