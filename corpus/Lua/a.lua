-- a.lua - a stack, a queue and some table helpers
--[[
  Block comment: héllo wörld, 日本語, 😀
]]

local Stack = {}
Stack.__index = Stack

function Stack.new()
  return setmetatable({ items = {}, size = 0 }, Stack)
end

function Stack:push(value)
  self.size = self.size + 1
  self.items[self.size] = value
  return self
end

function Stack:pop()
  if self.size == 0 then
    return nil  -- nothing to pop
  end
  local value = self.items[self.size]
  self.items[self.size] = nil
  self.size = self.size - 1
  return value
end

-- foo doubles and adds one
local function foo(x)
  return x * 2 + 1
end

local function bar(a, b)
  return a - b
end

local function map(list, fn)
  local out = {}
  for i, v in ipairs(list) do
    out[i] = fn(v)
  end
  return out
end

local function sum(list)
  local total = 0
  for i = 1, #list do
    total = total + list[i]
  end
  return total
end

local config = {
  name = "héllo wörld",
  lang = "日本語",
  mood = "😀",
  ports = { 8080, 8081, 9090 },
  nested = {
    enabled = true,
    ratio = 0.75,
    ["key with spaces"] = "valeur",
  },
}

foo(1)
foo(2)
foo(foo(1))
bar(foo(1), foo(foo(2)))
bar(bar(1, 2), bar(3, 4))
print(foo(3))
print(foo(3), bar(4, 5))
print(config.name .. " " .. config.lang)

local stack = Stack.new()
stack:push(1):push(2):push(3)

local squares = map({ 1, 2, 3, 5, 8 }, function(v)
  return v * v
end)

local i = 0
while i < 5 do
  if i % 2 == 0 and i ~= 4 then
    stack:push(i * 10)
  elseif i > 3 then
    stack:pop()
  else
    --[[ nothing to do ]]
  end
  i = i + 1
end

repeat
  local top = stack:pop()
  print(top, stack.size)
until stack.size == 0

for key, value in pairs(config.nested) do
  print(key, tostring(value))
end

print(
  string.format(
    "%d %s %.2f",
    sum(squares),
    config.mood,
    config.nested.ratio
  )
)

return { Stack = Stack, foo = foo, bar = bar }
