# a.py - student grade book
"""Module docstring used as a block comment: héllo wörld, 日本語, 😀."""

from dataclasses import dataclass, field
from typing import Dict, List, Optional

PASS_MARK = 50
WEIGHTS = {"exam": 0.6, "homework": 0.3, "quiz": 0.1}


def foo(x):
    return x * 2 + 1


def bar(a, b):
    return a - b


@dataclass
class Student:
    name: str
    grades: Dict[str, float] = field(default_factory=dict)
    tags: List[str] = field(default_factory=list)

    def average(self) -> float:
        # weighted average over the known categories
        total = 0.0
        for kind, weight in WEIGHTS.items():
            total += self.grades.get(kind, 0.0) * weight
        return round(total, 2)

    def passed(self) -> bool:
        return self.average() >= PASS_MARK  # trailing comment


class GradeBook:
    def __init__(self, title):
        self.title = title
        self.students = []

    def add(self, student):
        self.students.append(student)
        return self

    def best(self) -> Optional[Student]:
        if not self.students:
            return None
        return max(self.students, key=lambda s: s.average())

    def report(self):
        lines = []
        for index, student in enumerate(self.students):
            if student.passed() and index % 2 == 0:
                status = "réussi"
            elif student.passed():
                status = "合格"
            else:
                status = "échec 😀"
            lines.append("%d. %s: %.1f (%s)" % (
                index + 1,
                student.name,
                student.average(),
                status,
            ))
        return "\n".join(lines)


book = GradeBook("Mathématiques")
book.add(Student("Zoë", {"exam": 82, "homework": 90, "quiz": 70}))
book.add(Student("太郎", {"exam": 45, "homework": 60}))
book.add(
    Student(
        "René",
        {"exam": 30, "quiz": 100},
        ["rattrapage"],
    )
)

foo(1)
foo(2)
foo(foo(1))
bar(foo(1), foo(foo(2)))
bar(bar(1, 2), bar(3, 4))
print(foo(3))
print(foo(3), bar(4, 5))
print("héllo wörld 😀")

numbers = [1, 2, 3, 5, 8, 13]
squares = [n * n for n in numbers if n % 2 == 1]
matrix = [
    [1, 2, 3],
    [4, 5, 6],
    [7, 8, [9, 10]],
]
lookup = {name: len(name) for name in ("un", "deux", "三")}

i = 0
while i < len(matrix):
    i += 1

print(book.report())
print(book.best().name, squares, lookup, i)

# dangling commas before a closer
foo(alpha, beta, gamma,)
trailing = [one, two, three,]
bar({"k": 1, "l": 2,}, (p, q,),)
