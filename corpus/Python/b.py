"""b.py - log parsing, generators and context managers."""
# Remarque: analyse de journaux, ログ解析

import re
from collections import Counter, namedtuple
from contextlib import contextmanager

LONG_TEXT = "Lorem ipsum dolor sit amet, consectetur adipiscing elit, sed do eiusmod tempor incididunt ut labore et dolore magna aliqua, ut enim ad minim veniam, quis nostrud exercitation ullamco laboris nisi ut aliquip ex ea commodo consequat, fin de la línea"

LINE_RE = re.compile(r"^(?P<level>[A-Z]+) (?P<code>\d{3}) (?P<message>.*)")
Record = namedtuple("Record", ["level", "code", "message"])

SAMPLE = [
    "INFO 200 héllo wörld",
    "WARN 404 ページが見つかりません",
    "ERROR 500 échec du serveur 😀",
    "garbage line",
    "INFO 201 créé",
]


def square(x):
	return x * x  # tab-indented body


def add(a, b):
	return a + b


def parse(lines):
    for number, line in enumerate(lines, start=1):
        match = LINE_RE.match(line)
        if match is None:
            continue  # skip malformed lines
        yield Record(
            match.group("level"),
            int(match.group("code")),
            match.group("message"),
        )


@contextmanager
def section(title, width=40):
    print("=" * width)
    print(title)
    try:
        yield title.upper()
    finally:
        print("-" * width)


class Stats:
    def __init__(self):
        self.levels = Counter()
        self.errors = []

    def feed(self, record):
        self.levels[record.level] += 1
        if record.code >= 500 or record.level == "ERROR":
            self.errors.append(record)
        return self

    def worst(self):
        try:
            return max(self.errors, key=lambda r: r.code)
        except ValueError:
            return None

    def __repr__(self):
        return "Stats(levels=%r, errors=%d)" % (dict(self.levels), len(self.errors))


square(1)
square(2)
square(square(3))
add(square(1), square(square(2)))
add(add(1, 2), add(3, add(4, 5)))

stats = Stats()
for record in parse(SAMPLE):
    stats.feed(record)

with section("résumé") as heading:
    print(heading, stats)
    worst = stats.worst()
    if worst is not None and worst.code > 499:
        print("pire:", worst.message)
    else:
        print("rien à signaler")

codes = {r.code for r in parse(SAMPLE)}
by_level = {
    level: [r.message for r in parse(SAMPLE) if r.level == level]
    for level in ("INFO", "WARN", "ERROR")
}
first, *middle, last = sorted(codes)
ratio = (last - first) / (len(middle) or 1) ** 2

assert len(LONG_TEXT) > 200, "le texte devrait être long"
print(first, middle, last, ratio, by_level["WARN"], add(square(2), len(LONG_TEXT)))
