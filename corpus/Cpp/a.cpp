// a.cpp - shapes, templates and lambdas
/*
 * Block comment: héllo wörld, 日本語, 😀
 */
#include <algorithm>
#include <iostream>
#include <map>
#include <memory>
#include <string>
#include <vector>

namespace geometry {

class Shape {
public:
    virtual ~Shape() = default;
    virtual double area() const = 0;
    virtual std::string name() const { return "shape"; }
};

class Rect : public Shape {
public:
    Rect(double w, double h) : w_(w), h_(h) {}
    double area() const override { return w_ * h_; }
    std::string name() const override { return "rect"; }

private:
    double w_;
    double h_;  // height
};

class Circle : public Shape {
public:
    explicit Circle(double r) : r_(r) {}
    double area() const override { return 3.14159 * r_ * r_; }

private:
    double r_;
};

}  // namespace geometry

template <typename T>
T foo(T value) {
    return value + value;
}

template <typename T, typename U>
auto bar(T a, U b) -> decltype(a + b) {
    return a + b;
}

static int count_large(const std::vector<int>& xs, int limit) {
    return static_cast<int>(std::count_if(
        xs.begin(),
        xs.end(),
        [limit](int x) { return x > limit; }));
}

int main() {
    using namespace geometry;

    std::vector<std::unique_ptr<Shape>> shapes;
    shapes.push_back(std::make_unique<Rect>(2.0, 3.5));
    shapes.push_back(std::make_unique<Circle>(1.25));

    std::map<std::string, int> ages = {
        {"zoë", 31},
        {"rené", 45},
        {"太郎", 28},
    };
    std::vector<int> numbers{1, 2, 3, 5, 8, 13};

    foo(1);
    foo(2);
    foo(foo(1));
    bar(foo(1), foo(foo(2)));
    bar(bar(1, 2), 3.5);
    std::cout << foo(3) << " " << bar(4, 5) << std::endl;

    double total = 0.0;
    for (const auto& s : shapes) {
        if (s->area() > 5.0 && s->name() != "shape") {
            total += s->area();
        } else {
            total -= 1.0;  /* penalty */
        }
    }

    auto twice = [](auto f, int x) { return f(f(x)); };
    int r = twice([](int v) { return v * 3; }, 7);

    for (const auto& [name, age] : ages) {
        std::cout << name << ": " << age << "\n";
    }
    std::cout << "héllo wörld 😀 "
              << total << " "
              << r << " "
              << count_large(numbers, 4)
              << std::endl;
    return 0;
}
