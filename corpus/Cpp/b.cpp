/* b.cpp - a small inventory with operator overloading */
// Notes: prix en euros, 在庫管理
#include <cstdint>
#include <iostream>
#include <optional>
#include <sstream>
#include <string>
#include <unordered_map>
#include <vector>

enum class Category { Tool, Food, Toy };

struct Money {
    std::int64_t cents = 0;

    Money operator+(const Money& other) const { return Money{cents + other.cents}; }
    Money operator*(int n) const { return Money{cents * n}; }
    bool operator<(const Money& other) const { return cents < other.cents; }
};

struct Item {
    std::string name;
    Category category;
    Money price;
    int quantity;
};

static const std::string kLongDescription = "Lorem ipsum dolor sit amet, consectetur adipiscing elit, sed do eiusmod tempor incididunt ut labore et dolore magna aliqua, ut enim ad minim veniam, quis nostrud exercitation ullamco laboris nisi ut aliquip ex ea commodo consequat, fin de la línea";

class Inventory {
public:
    void add(Item item) {
	items_.push_back(std::move(item));  // tab-indented line
    }

    std::optional<Item> find(const std::string& name) const {
        for (const auto& item : items_) {
            if (item.name == name) {
                return item;
            }
        }
        return std::nullopt;
    }

    Money total() const {
        Money sum;
        for (std::size_t i = 0; i < items_.size(); ++i) {
            sum = sum + items_[i].price * items_[i].quantity;
        }
        return sum;
    }

private:
    std::vector<Item> items_;
};

static int square(int x) { return x * x; }
static int add(int a, int b) { return a + b; }

static std::string describe(const Item& item) {
    std::ostringstream out;
    out << item.name << " x" << item.quantity;
    switch (item.category) {
        case Category::Tool: out << " [outil]"; break;
        case Category::Food: out << " [食べ物]"; break;
        default: out << " [jouet 😀]"; break;
    }
    return out.str();
}

int main() {
    Inventory inv;
    inv.add(Item{"marteau", Category::Tool, Money{1299}, 2});
    inv.add(Item{"crème brûlée", Category::Food, Money{450}, 6});
    inv.add(Item{
        "ロボット",
        Category::Toy,
        Money{2500},
        1,
    });

    square(1);
    square(2);
    square(square(3));
    add(square(1), square(square(2)));
    add(add(1, 2), add(3, add(4, 5)));

    std::unordered_map<std::string, int> counts;
    int n = 0;
    while (n < 5) {
        counts["k" + std::to_string(n)] = add(n, square(n));
        ++n;
    }

    if (auto found = inv.find("marteau"); found.has_value()) {
        std::cout << describe(*found) << "\n";
    } else {
        std::cout << "not found" << "\n";
    }
    std::cout << inv.total().cents / 100.0 << " " << kLongDescription.size() << " " << counts.size() << "\n";
    return 0;
}
