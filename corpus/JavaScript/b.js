/* b.js - async helpers, generators and a tiny event emitter */
// Remarque: émetteur d'événements, イベントエミッター

const LONG_TEXT = "Lorem ipsum dolor sit amet, consectetur adipiscing elit, sed do eiusmod tempor incididunt ut labore et dolore magna aliqua, ut enim ad minim veniam, quis nostrud exercitation ullamco laboris nisi ut aliquip ex ea commodo consequat, fin de la línea";

const square = (x) => x * x;
const add = (a, b) => a + b;

function sleep(ms) {
	return new Promise((resolve) => setTimeout(resolve, ms)); // tab-indented line
}

class Emitter {
  constructor() {
    this.handlers = new Map();
  }

  on(name, handler) {
    if (!this.handlers.has(name)) {
      this.handlers.set(name, []);
    }
    this.handlers.get(name).push(handler);
    return () => this.off(name, handler);
  }

  off(name, handler) {
    const list = this.handlers.get(name) || [];
    const index = list.indexOf(handler);
    if (index >= 0) {
      list.splice(index, 1);
    }
  }

  emit(name, ...args) {
    (this.handlers.get(name) || []).forEach((h) => h(...args));
  }
}

function* fibonacci(limit) {
  let [a, b] = [0, 1];
  while (a < limit) {
    yield a;
    [a, b] = [b, a + b];
  }
}

async function retry(task, attempts = 3) {
  let lastError = null;
  for (let n = 0; n < attempts; n++) {
    try {
      return await task(n);
    } catch (err) {
      lastError = err; // remember and try again
      await sleep(10 * (n + 1));
    }
  }
  throw lastError;
}

square(1);
square(2);
square(square(3));
add(square(1), square(square(2)));
add(add(1, 2), add(3, add(4, 5)));

const emitter = new Emitter();
const seen = [];
const unsubscribe = emitter.on('message', (text, count) => {
  seen.push({ text, count });
});
emitter.emit('message', 'héllo wörld', 1);
emitter.emit('message', '日本語', 2);
emitter.emit('message', '😀', add(1, 2));
unsubscribe();

const { text: firstText, ...rest } = seen[0];
const config = {
  retries: 3,
  labels: ['un', 'deux', 'trois'],
  nested: {
    enabled: true,
    ratio: 0.75,
  },
  [firstText]: rest,
};

retry(async (n) => {
  if (n < 2) {
    throw new Error('échec ' + n);
  }
  return [...fibonacci(50)].map(square).filter((v) => v % 2 === 1);
})
  .then((values) => console.log(values, config.nested.ratio, LONG_TEXT.length))
  .catch((err) => console.error(err.message))
  .finally(() => console.log(typeof seen, seen.length > 2 ? 'many' : 'few'));

switch (seen.length) {
  case 0:
    console.log('none');
    break;
  case 3:
    console.log('three');
    break;
  default:
    console.log('other');
}
