// a.js - todo list model
/*
 * Block comment: héllo wörld, 日本語, 😀
 */
'use strict';

const DEFAULT_TAGS = ['maison', 'travail', '買い物'];
const PRIORITY = { low: 1, normal: 5, high: 10 };

function foo(x) {
  return x * 2 + 1;
}

function bar(a, b) {
  return a - b;
}

class Todo {
  constructor(title, priority = PRIORITY.normal) {
    this.title = title;
    this.priority = priority;
    this.done = false; // not finished yet
    this.tags = [];
  }

  tag(...names) {
    this.tags.push(...names);
    return this;
  }

  get label() {
    return (this.done ? '[x] ' : '[ ] ') + this.title;
  }
}

class TodoList {
  constructor() {
    this.items = [];
  }

  add(todo) {
    this.items.push(todo);
    return this;
  }

  pending() {
    return this.items
      .filter((t) => !t.done)
      .sort((a, b) => b.priority - a.priority)
      .map((t) => t.label);
  }

  countByTag() {
    const counts = {};
    for (const item of this.items) {
      for (const tag of item.tags) {
        counts[tag] = (counts[tag] || 0) + 1;
      }
    }
    return counts;
  }
}

const list = new TodoList();
list
  .add(new Todo('acheter du café', PRIORITY.high).tag('maison', '買い物'))
  .add(new Todo('écrire le rapport').tag('travail'))
  .add(
    new Todo(
      '日本語を勉強する',
      PRIORITY.low
    )
  );

foo(1);
foo(2);
foo(foo(1));
bar(foo(1), foo(foo(2)));
bar(bar(1, 2), bar(3, 4));
console.log(foo(3));
console.log(foo(3), bar(4, 5));
console.log('héllo wörld 😀', DEFAULT_TAGS.length);

let i = 0;
while (i < list.items.length) {
  if (i % 2 === 0 && list.items[i].priority > 1) {
    list.items[i].done = true;
  } else if (i === 1) {
    list.items[i].tag('urgent');
  } else {
    /* leave it alone */
  }
  i += 1;
}

const summary = {
  pending: list.pending(),
  tags: list.countByTag(),
  nested: { deep: [1, [2, [3, 4]]], ok: true },
};

console.log(JSON.stringify(summary, null, 2));
module.exports = { Todo, TodoList, foo, bar };

// dangling commas before a closer
foo(alpha, beta, gamma,);
const trailing = [one, two, three,];
bar({ k: 1, l: 2, }, [p, q,],);
