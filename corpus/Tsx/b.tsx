/* b.tsx - a data table with sorting and a modal dialog */
// Remarque: tableau de données, データテーブル
import * as React from "react";

const LONG_TEXT = "Lorem ipsum dolor sit amet, consectetur adipiscing elit, sed do eiusmod tempor incididunt ut labore et dolore magna aliqua, ut enim ad minim veniam, quis nostrud exercitation ullamco laboris nisi ut aliquip ex ea commodo consequat, fin de la línea";

export interface Row {
  name: string;
  city: string;
  score: number;
}

interface Column<T> {
  key: keyof T;
  label: string;
  numeric?: boolean;
}

enum Direction {
  Asc = 1,
  Desc = -1,
}

const square = (x: number): number => x * x;
const add = (a: number, b: number): number => a + b;

const COLUMNS: Column<Row>[] = [
  { key: "name", label: "Nom" },
  { key: "city", label: "都市" },
  { key: "score", label: "Score 😀", numeric: true },
];

const ROWS: Row[] = [
  { name: "Zoë", city: "Zürich", score: 82 },
  { name: "太郎", city: "東京", score: 91 },
  { name: "René", city: "Orléans", score: 67 },
];

function sortRows(rows: Row[], key: keyof Row, dir: Direction): Row[] {
	const copy = rows.slice(); // tab-indented line
  copy.sort((a, b) => {
    if (a[key] < b[key]) return -1 * dir;
    if (a[key] > b[key]) return 1 * dir;
    return 0;
  });
  return copy;
}

class Modal extends React.Component<{ title: string; children?: React.ReactNode }, { open: boolean }> {
  state = { open: false };

  toggle = (): void => {
    this.setState((prev) => ({ open: !prev.open }));
  };

  render() {
    if (!this.state.open) {
      return <button onClick={this.toggle}>Ouvrir</button>;
    }
    return (
      <div className="modal" role="dialog" aria-label={this.props.title}>
        <h3>{this.props.title}</h3>
        <>{this.props.children}</>
        <button onClick={this.toggle}>Fermer</button>
      </div>
    );
  }
}

export const DataTable: React.FC<{ caption?: string }> = ({ caption = "héllo wörld" }) => {
  const [sortKey, setSortKey] = React.useState<keyof Row>("name");
  const [dir, setDir] = React.useState<Direction>(Direction.Asc);
  const rows = sortRows(ROWS, sortKey, dir);
  const total = rows.reduce((acc, r) => add(acc, r.score), 0);

  square(1);
  square(2);
  square(square(3));
  add(square(1), square(square(2)));
  add(add(1, 2), add(3, add(4, 5)));

  return (
    <div>
      <table>
        <caption>{caption}</caption>
        <thead>
          <tr>
            {COLUMNS.map((col) => (
              <th
                key={String(col.key)}
                className={col.numeric ? "num" : undefined}
                onClick={() => {
                  setSortKey(col.key);
                  setDir(dir === Direction.Asc ? Direction.Desc : Direction.Asc);
                }}
              >
                {col.label}
              </th>
            ))}
          </tr>
        </thead>
        <tbody>
          {rows.map((r, i) => (
            <tr key={r.name} className={i % 2 === 0 ? "even" : "odd"}>
              <td>{r.name}</td>
              <td>{r.city}</td>
              <td className="num">{r.score}</td>
            </tr>
          ))}
        </tbody>
      </table>
      <Modal title="Détails">
        <p>Total: {total} · longueur: {LONG_TEXT.length}</p>
      </Modal>
    </div>
  );
};
