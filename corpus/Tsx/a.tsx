// a.tsx - a todo list component
/*
 * Block comment: héllo wörld, 日本語, 😀
 */
import React, { useMemo, useState } from "react";

interface Todo {
  id: number;
  title: string;
  done: boolean;
  tags?: string[];
}

type Filter = "all" | "open" | "done";

interface TodoItemProps {
  todo: Todo;
  onToggle: (id: number) => void;
}

function foo(x: number): number {
  return x * 2 + 1;
}

function bar(a: number, b: number): number {
  return a - b;
}

const INITIAL: Todo[] = [
  { id: 1, title: "acheter du café", done: false, tags: ["maison"] },
  { id: 2, title: "日本語を勉強する", done: true },
  {
    id: 3,
    title: "écrire le rapport 😀",
    done: false,
    tags: ["travail", "urgent"],
  },
];

function TodoItem({ todo, onToggle }: TodoItemProps) {
  // a single row
  return (
    <li className={todo.done ? "done" : "open"} data-id={todo.id}>
      <input
        type="checkbox"
        checked={todo.done}
        onChange={() => onToggle(todo.id)}
      />
      <span title="héllo wörld">{todo.title}</span>
      {todo.tags && todo.tags.length > 0 ? (
        <em> ({todo.tags.join(", ")})</em>
      ) : null}
    </li>
  );
}

export function TodoList(props: { heading: string }) {
  const [todos, setTodos] = useState<Todo[]>(INITIAL);
  const [filter, setFilter] = useState<Filter>("all");

  const visible = useMemo(() => {
    return todos.filter((t) => {
      if (filter === "open") {
        return !t.done;
      } else if (filter === "done") {
        return t.done;
      }
      return true; /* "all" */
    });
  }, [todos, filter]);

  const toggle = (id: number) => {
    setTodos(
      todos.map((t) => (t.id === id ? { ...t, done: !t.done } : t))
    );
  };

  foo(1);
  foo(2);
  foo(foo(1));
  bar(foo(1), foo(foo(2)));
  bar(bar(1, 2), bar(3, 4));
  console.log(foo(3));
  console.log(foo(3), bar(4, 5));

  return (
    <section className="todo-list">
      <h2>{props.heading} — やることリスト</h2>
      {/* filter buttons */}
      <nav>
        <button onClick={() => setFilter("all")}>Tout</button>
        <button onClick={() => setFilter("open")}>À faire</button>
        <button onClick={() => setFilter("done")} disabled={visible.length === 0}>
          Terminé
        </button>
      </nav>
      <ul>
        {visible.map((todo) => (
          <TodoItem key={todo.id} todo={todo} onToggle={toggle} />
        ))}
      </ul>
      <footer>
        {visible.length} / {todos.length} <small>éléments</small>
      </footer>
    </section>
  );
}

export default TodoList;

// dangling commas before a closer
foo(alpha, beta, gamma,);
const trailing = [one, two, three,];
bar({ k: 1, l: 2, }, [p, q,],);
