// a.go - inventory of points and a worker pool
/*
Block comment: héllo wörld, 日本語, 😀
*/
package main

import (
    "errors"
    "fmt"
    "sort"
    "strings"
)

type Point struct {
    X, Y float64
}

type Shape interface {
    Area() float64
    Name() string
}

type Rect struct {
    Min, Max Point
}

func (r Rect) Area() float64 {
    return (r.Max.X - r.Min.X) * (r.Max.Y - r.Min.Y)
}

func (r Rect) Name() string { return "rect" } // trailing comment

var ErrEmpty = errors.New("liste vide")

const greeting = "héllo wörld 😀"

// foo doubles and adds one
func foo(x int) int {
    return x*2 + 1
}

func bar(a, b int) int {
    return a - b
}

func average(xs []float64) (float64, error) {
    if len(xs) == 0 {
        return 0, ErrEmpty
    }
    total := 0.0
    for _, x := range xs {
        total += x
    }
    return total / float64(len(xs)), nil
}

func apply(xs []int, f func(int) int) []int {
    out := make([]int, 0, len(xs))
    for i := 0; i < len(xs); i++ {
        out = append(out, f(xs[i]))
    }
    return out
}

func main() {
    shapes := []Shape{
        Rect{Point{0, 0}, Point{2, 3}},
        Rect{
            Min: Point{X: 1, Y: 1},
            Max: Point{X: 4.5, Y: 2.5},
        },
    }
    ages := map[string]int{
        "zoë":  31,
        "rené": 45,
        "太郎":   28,
    }

    foo(1)
    foo(2)
    foo(foo(1))
    bar(foo(1), foo(foo(2)))
    bar(bar(1, 2), bar(3, 4))
    fmt.Println(foo(3), bar(4, 5))
    fmt.Println(greeting)

    names := make([]string, 0, len(ages))
    for name := range ages {
        names = append(names, name)
    }
    sort.Strings(names)

    squares := apply([]int{1, 2, 3, 5, 8}, func(v int) int {
        return v * v
    })

    for i, s := range shapes {
        if s.Area() > 5 && s.Name() != "" {
            fmt.Printf("%d: %s %.2f\n", i, s.Name(), s.Area())
        } else if i == 0 {
            fmt.Println("small first shape")
        } else {
            /* nothing to report */
        }
    }

    avg, err := average([]float64{1.5, 2.5, 4})
    switch {
    case err != nil:
        fmt.Println("error:", err)
    case avg > 2:
        fmt.Println(strings.Join(names, ", "), squares, avg)
    default:
        fmt.Println("日本語")
    }
}
