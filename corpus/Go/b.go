/* b.go - a small key/value store with channels */
// Remarque: magasin clé/valeur, キーバリューストア
package store

import (
    "fmt"
    "sync"
    "time"
)

type Entry struct {
    Key     string
    Value   []byte
    Expires time.Time
}

type Store struct {
    mu      sync.RWMutex
    entries map[string]Entry
    hits    int
}

const longText = "Lorem ipsum dolor sit amet, consectetur adipiscing elit, sed do eiusmod tempor incididunt ut labore et dolore magna aliqua, ut enim ad minim veniam, quis nostrud exercitation ullamco laboris nisi ut aliquip ex ea commodo consequat, fin de la línea"

func New() *Store {
	return &Store{entries: make(map[string]Entry)} // tab-indented line
}

func (s *Store) Put(key string, value []byte, ttl time.Duration) {
    s.mu.Lock()
    defer s.mu.Unlock()
    s.entries[key] = Entry{
        Key:     key,
        Value:   value,
        Expires: time.Now().Add(ttl),
    }
}

func (s *Store) Get(key string) ([]byte, bool) {
    s.mu.RLock()
    defer s.mu.RUnlock()
    e, ok := s.entries[key]
    if !ok || time.Now().After(e.Expires) {
        return nil, false // missing or expired
    }
    s.hits++
    return e.Value, true
}

func square(x int) int { return x * x }

func add(a, b int) int { return a + b }

func produce(n int, out chan<- int) {
    for i := 0; i < n; i++ {
        out <- add(i, square(i))
    }
    close(out)
}

func Demo() {
    s := New()
    s.Put("greeting", []byte("héllo wörld"), time.Minute)
    s.Put("言語", []byte("日本語"), 2*time.Second)
    s.Put(
        "mood",
        []byte("😀"),
        500*time.Millisecond,
    )

    square(1)
    square(2)
    square(square(3))
    add(square(1), square(square(2)))
    add(add(1, 2), add(3, add(4, 5)))

    ch := make(chan int, 4)
    go produce(6, ch)

    total := 0
    for v := range ch {
        if v%2 == 0 {
            total += v
        } else {
            total -= 1
        }
    }

    var wg sync.WaitGroup
    for _, key := range []string{"greeting", "言語", "missing"} {
        wg.Add(1)
        go func(k string) {
            defer wg.Done()
            if v, ok := s.Get(k); ok {
                fmt.Println(k, string(v))
            }
        }(key)
    }
    wg.Wait()

    select {
    case <-time.After(10 * time.Millisecond):
        fmt.Println("timeout", total, len(longText))
    default:
        fmt.Println("ready", total, s.hits)
    }
}
