// a.java - library catalogue sample
/*
 * Block comment: héllo wörld, 日本語, 😀
 */
package corpus.library;

import java.util.ArrayList;
import java.util.HashMap;
import java.util.List;
import java.util.Map;
import java.util.stream.Collectors;

interface Describable {
    String describe();
}

class Book implements Describable {
    private final String title;
    private final String author;
    private final int year;

    Book(String title, String author, int year) {
        this.title = title;
        this.author = author;
        this.year = year;
    }

    int getYear() {
        return year;
    }

    String getTitle() {
        return title;
    }

    @Override
    public String describe() {
        return title + " (" + author + ", " + year + ")";  // trailing comment
    }
}

class Catalogue {
    private final List<Book> books = new ArrayList<>();
    private final Map<String, Integer> loans = new HashMap<>();

    static int foo(int x) {
        return x * 2 + 1;
    }

    static int bar(int a, int b) {
        return a - b;
    }

    void add(Book book) {
        books.add(book);
        loans.put(book.getTitle(), 0);
    }

    /** Returns titles published after the given year. */
    List<String> titlesAfter(int year) {
        return books.stream()
            .filter(b -> b.getYear() > year)
            .map(Book::getTitle)
            .sorted()
            .collect(Collectors.toList());
    }

    int countOld(int limit) {
        int count = 0;
        for (Book b : books) {
            if (b.getYear() < limit && !b.getTitle().isEmpty()) {
                count++;
            } else {
                /* recent book, skip */
            }
        }
        return count;
    }

    public static void main(String[] args) {
        Catalogue c = new Catalogue();
        c.add(new Book("Les Misérables", "Victor Hugo", 1862));
        c.add(new Book("吾輩は猫である", "夏目漱石", 1905));
        c.add(new Book(
            "Le Petit Prince",
            "Antoine de Saint-Exupéry",
            1943));

        int[] numbers = {1, 2, 3, 5, 8};
        String[] labels = {"héllo wörld", "日本語", "😀"};

        foo(1);
        foo(2);
        foo(foo(1));
        bar(foo(1), foo(foo(2)));
        bar(bar(1, 2), bar(3, 4));
        System.out.println(foo(3));
        System.out.println(bar(4, 5));
        System.out.println(labels[0] + " " + numbers[4]);

        int i = 0;
        while (i < labels.length) {
            System.out.println(labels[i]);
            i++;
        }
        System.out.println(c.titlesAfter(1900) + " " + c.countOld(1900));
    }
}
