/* b.java - event scheduling with generics and enums */
// Remarque: planification d'événements, イベントの予定
package corpus.schedule;

import java.util.Arrays;
import java.util.Comparator;
import java.util.Optional;
import java.util.PriorityQueue;
import java.util.function.Function;

enum Priority {
    LOW(1), NORMAL(5), HIGH(10);

    private final int weight;

    Priority(int weight) {
        this.weight = weight;
    }

    int weight() {
        return weight;
    }
}

final class Event {
    final String name;
    final Priority priority;
    final long timestamp;

    Event(String name, Priority priority, long timestamp) {
	this.name = name;          // tab-indented line
	this.priority = priority;
        this.timestamp = timestamp;
    }
}

class Pair<A, B> {
    final A first;
    final B second;

    Pair(A first, B second) {
        this.first = first;
        this.second = second;
    }

    <C> Pair<A, C> mapSecond(Function<B, C> f) {
        return new Pair<>(first, f.apply(second));
    }
}

class Scheduler {
    static final String LONG_TEXT = "Lorem ipsum dolor sit amet, consectetur adipiscing elit, sed do eiusmod tempor incididunt ut labore et dolore magna aliqua, ut enim ad minim veniam, quis nostrud exercitation ullamco laboris nisi ut aliquip ex ea commodo consequat, fin de la línea";

    private final PriorityQueue<Event> queue = new PriorityQueue<>(
        Comparator
            .comparingInt((Event e) -> -e.priority.weight())
            .thenComparingLong(e -> e.timestamp));

    static int square(int x) { return x * x; }

    static int add(int a, int b) { return a + b; }

    void submit(Event e) {
        queue.add(e);
    }

    Optional<Event> next() {
        return Optional.ofNullable(queue.poll());
    }

    static String label(Priority p) {
        switch (p) {
            case HIGH:
                return "urgent 😀";
            case NORMAL:
                return "normal";
            default:
                return "低い";
        }
    }

    public static void main(String[] args) {
        Scheduler s = new Scheduler();
        s.submit(new Event("déjeuner", Priority.LOW, 1200L));
        s.submit(new Event("会議", Priority.HIGH, 900L));
        s.submit(new Event("revue de code", Priority.NORMAL, 1000L));

        square(1);
        square(2);
        square(square(3));
        add(square(1), square(square(2)));
        add(add(1, 2), add(3, add(4, 5)));

        Pair<String, Integer> p = new Pair<>("héllo wörld", 11);
        Pair<String, String> q = p.mapSecond(n -> "n=" + add(n, 1));

        for (int i = 0; i < 3; i++) {
            Optional<Event> e = s.next();
            if (e.isPresent() && e.get().priority != Priority.LOW) {
                System.out.println(e.get().name + " " + label(e.get().priority));
            } else if (!e.isPresent()) {
                break;
            }
        }
        do {
            System.out.println(q.first + " " + q.second);
        } while (LONG_TEXT.length() < 10);
        System.out.println(Arrays.asList(1, 2, 3).size() + LONG_TEXT.length());
    }
}
