/* b.cs - matrix helpers and a generic cache */
// Remarque: les commentaires contiennent du texte non ASCII (行列)
using System;
using System.Collections.Generic;
using System.Text;

namespace Corpus.Numerics
{
    public interface ICache<TKey, TValue>
    {
        bool TryGet(TKey key, out TValue value);
        void Put(TKey key, TValue value);
    }

    public sealed class MemoryCache<TKey, TValue> : ICache<TKey, TValue>
    {
        private readonly Dictionary<TKey, TValue> store = new Dictionary<TKey, TValue>();
        private readonly int capacity;

        public MemoryCache(int capacity)
        {
	    this.capacity = capacity;  // tab-indented line
        }

        public bool TryGet(TKey key, out TValue value)
        {
            return store.TryGetValue(key, out value);
        }

        public void Put(TKey key, TValue value)
        {
            if (store.Count >= capacity)
            {
                store.Clear();  // crude eviction
            }
            store[key] = value;
        }
    }

    public struct Vec2
    {
        public double X;
        public double Y;

        public Vec2(double x, double y) { X = x; Y = y; }

        public static Vec2 operator +(Vec2 a, Vec2 b) => new Vec2(a.X + b.X, a.Y + b.Y);
        public double Length() => Math.Sqrt(X * X + Y * Y);
    }

    public static class MatrixDemo
    {
        private const string LongText = "Lorem ipsum dolor sit amet, consectetur adipiscing elit, sed do eiusmod tempor incididunt ut labore et dolore magna aliqua, ut enim ad minim veniam, quis nostrud exercitation ullamco laboris nisi ut aliquip ex ea commodo consequat, fin de la línea";

        static int Square(int x) => x * x;

        static int Add(int a, int b) => a + b;

        static int[,] Identity(int n)
        {
            var m = new int[n, n];
            for (int i = 0; i < n; i++)
            {
                for (int j = 0; j < n; j++)
                {
                    m[i, j] = i == j ? 1 : 0;
                }
            }
            return m;
        }

        static string Describe(object value)
        {
            switch (value)
            {
                case int n when n > 100:
                    return "grand nombre";
                case int _:
                    return "nombre";
                case string s:
                    return "texte: " + s;
                default:
                    return "不明 😀";
            }
        }

        public static void Main()
        {
            var cache = new MemoryCache<string, int>(4);
            var sb = new StringBuilder();

            Square(1);
            Square(2);
            Square(Square(3));
            Add(Square(1), Square(Square(2)));
            Add(Add(1, 2), Add(3, Add(4, 5)));

            int k = 0;
            while (k < 6)
            {
                cache.Put("k" + k, Add(k, Square(k)));
                k++;
            }

            if (cache.TryGet("k5", out int hit) && hit > 0)
            {
                sb.Append(Describe(hit)).Append(' ').Append(Describe("héllo wörld"));
            }
            var v = new Vec2(3.0, 4.0) + new Vec2(
                0.5,
                -0.5);
            Console.WriteLine(sb.ToString() + " " + v.Length() + " " + Identity(3)[1, 1] + " " + LongText.Length);
        }
    }
}
