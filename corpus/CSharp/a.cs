// a.cs - order processing sample
/*
 * Block comment: héllo wörld, 日本語, 😀
 */
using System;
using System.Collections.Generic;
using System.Linq;

namespace Corpus.Orders
{
    public enum Status { Pending, Shipped, Cancelled }

    public class Order
    {
        public int Id { get; set; }
        public string Customer { get; set; } = "";
        public decimal Amount { get; set; }
        public Status Status { get; set; } = Status.Pending;  // default status

        public Order(int id, string customer, decimal amount)
        {
            Id = id;
            Customer = customer;
            Amount = amount;
        }

        public override string ToString()
        {
            return string.Format("#{0} {1}: {2}", Id, Customer, Amount);
        }
    }

    public static class Program
    {
        static int Foo(int x)
        {
            return x * 2 + 1;
        }

        static int Bar(int a, int b)
        {
            return a - b;
        }

        static decimal Total(IEnumerable<Order> orders, Func<Order, bool> filter)
        {
            decimal sum = 0m;
            foreach (var o in orders)
            {
                if (filter(o) && o.Status != Status.Cancelled)
                {
                    sum += o.Amount;
                }
                else
                {
                    /* ignored order */
                }
            }
            return sum;
        }

        public static void Main(string[] args)
        {
            var orders = new List<Order>
            {
                new Order(1, "Zoë", 19.99m),
                new Order(2, "René", 250.00m),
                new Order(3, "太郎", 5.25m),
            };
            var lookup = new Dictionary<string, int>
            {
                { "one", 1 },
                { "two", 2 },
            };
            int[] numbers = { 1, 2, 3, 5, 8 };

            Foo(1);
            Foo(2);
            Foo(Foo(1));
            Bar(Foo(1), Foo(Foo(2)));
            Bar(Bar(1, 2), Bar(3, 4));
            Console.WriteLine(Foo(3));
            Console.WriteLine("héllo wörld 😀");
            Console.WriteLine(lookup["two"] + numbers[4]);

            var big = orders
                .Where(o => o.Amount > 10m)
                .OrderBy(o => o.Customer)
                .Select(o => o.ToString())
                .ToList();

            for (int i = 0; i < big.Count; i++)
            {
                Console.WriteLine(big[i]);
            }

            decimal total = Total(
                orders,
                o => o.Id % 2 == 1 || o.Customer.Length > 3);
            Console.WriteLine(total);
        }
    }
}
