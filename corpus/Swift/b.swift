/* b.swift - a generic stack, errors and optionals */
// Remarque: pile générique, ジェネリックスタック
import Foundation

let longText = "Lorem ipsum dolor sit amet, consectetur adipiscing elit, sed do eiusmod tempor incididunt ut labore et dolore magna aliqua, ut enim ad minim veniam, quis nostrud exercitation ullamco laboris nisi ut aliquip ex ea commodo consequat, fin de la línea"

enum StackError: Error {
    case empty
    case overflow(limit: Int)
}

struct Stack<Element> {
    private var items: [Element] = []
    let limit: Int

    init(limit: Int = 8) {
	self.limit = limit  // tab-indented line
    }

    var count: Int {
        return items.count
    }

    var top: Element? {
        return items.last
    }

    mutating func push(_ item: Element) throws {
        if items.count >= limit {
            throw StackError.overflow(limit: limit)
        }
        items.append(item)
    }

    mutating func pop() throws -> Element {
        guard let last = items.popLast() else {
            throw StackError.empty
        }
        return last
    }
}

final class Calculator {
    private var stack = Stack<Double>(limit: 4)
    private(set) var history: [String] = []

    func evaluate(_ tokens: [String]) -> Double? {
        do {
            for token in tokens {
                if let value = Double(token) {
                    try stack.push(value)
                } else {
                    let rhs = try stack.pop()
                    let lhs = try stack.pop()
                    try stack.push(apply(token, lhs, rhs))
                }
                history.append(token)
            }
            return try stack.pop()
        } catch StackError.empty {
            print("pile vide")
            return nil
        } catch {
            print("erreur: \(error)")
            return nil
        }
    }

    private func apply(_ op: String, _ a: Double, _ b: Double) -> Double {
        switch op {
        case "+": return a + b
        case "-": return a - b
        case "×", "*": return a * b
        default: return b == 0 ? 0 : a / b
        }
    }
}

func square(_ x: Int) -> Int {
    return x * x
}

func add(_ a: Int, _ b: Int) -> Int {
    return a + b
}

square(1)
square(2)
square(square(3))
add(square(1), square(square(2)))
add(add(1, 2), add(3, add(4, 5)))

let calc = Calculator()
let programs: [[String]] = [
    ["3", "4", "+", "2", "×"],
    ["1", "+"],
    ["1", "2", "3", "4", "5"],
]
let greetings = ["héllo wörld", "日本語", "😀"]

for (index, program) in programs.enumerated() {
    let result = calc.evaluate(program) ?? -1.0
    print(index, result, greetings[index % greetings.count])
}

var n = 0
repeat {
    n += square(2)
} while n < 10

let doubled: (Int) -> Int = { value in add(value, value) }
let lengths = greetings.map { g in g.count }
print(doubled(n), lengths, calc.history.count, longText.count)
