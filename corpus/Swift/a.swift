// a.swift - weather stations sample
/*
 * Block comment: héllo wörld, 日本語, 😀
 */
import Foundation

enum Sky {
    case clear
    case cloudy(cover: Double)
    case rain(mm: Double)
}

protocol Describable {
    func describe() -> String
}

struct Reading {
    let station: String
    let temperature: Double
    let sky: Sky
}

extension Reading: Describable {
    func describe() -> String {
        switch sky {
        case .clear:
            return "\(station): dégagé, \(temperature)°"
        case .cloudy(let cover) where cover > 0.8:
            return "\(station): couvert"
        case .cloudy:
            return "\(station): nuageux"
        case .rain(let mm):
            return "\(station): pluie \(mm) mm"  // trailing comment
        }
    }
}

class Network {
    private var readings: [Reading] = []
    var name: String

    init(name: String) {
        self.name = name
    }

    func record(_ reading: Reading) {
        readings.append(reading)
    }

    func average() -> Double? {
        guard !readings.isEmpty else {
            return nil
        }
        let total = readings.reduce(0.0) { acc, r in acc + r.temperature }
        return total / Double(readings.count)
    }

    func warm(above limit: Double) -> [String] {
        return readings
            .filter { r in r.temperature > limit }
            .map { r in r.station }
            .sorted()
    }
}

func foo(_ x: Int) -> Int {
    return x * 2 + 1
}

func bar(_ a: Int, _ b: Int) -> Int {
    return a - b
}

let network = Network(name: "Réseau météo")
network.record(Reading(station: "Zürich", temperature: 18.5, sky: .clear))
network.record(Reading(station: "東京", temperature: 24.0, sky: .rain(mm: 12.5)))
network.record(
    Reading(
        station: "Orléans",
        temperature: 9.25,
        sky: .cloudy(cover: 0.9)
    )
)

foo(1)
foo(2)
foo(foo(1))
bar(foo(1), foo(foo(2)))
bar(bar(1, 2), bar(3, 4))
print(foo(3))
print(foo(3), bar(4, 5))
print("héllo wörld 😀")

let numbers = [1, 2, 3, 5, 8, 13]
let labels = ["un": 1, "deux": 2, "三": 3]
let squares = numbers.filter { n in n % 2 == 1 }.map { n in n * n }

var i = 0
while i < 3 {
    if i % 2 == 0 && labels.count > 2 {
        print(squares[i])
    } else {
        /* skip odd rounds */
    }
    i += 1
}

for station in network.warm(above: 10.0) {
    print(station)
}
if let avg = network.average(), avg > 15.0 {
    print("moyenne élevée: \(avg)")
} else {
    print("moyenne basse")
}
